"""SimLoop: a single-threaded, seed-driven asyncio event loop.

No selector, no threads, no real time.  Real ``asyncio.Task``/``Future`` objects
run on it, so the library's ``await`` behaves as in production.  Every await
that could block in production *parks* on a future owned by the loop; when the
ready queue is empty the scheduler picks which parked item completes next.
``run_in_executor`` jobs are parked too and run inline when picked.

One scheduler decision == one entry of ``loop.decisions``; the decision counter
is the global event sequence number used to stamp history events.
"""

from __future__ import annotations

import asyncio
import collections
import heapq
from asyncio import events
from typing import Any
from typing import Callable


class Deadlock(Exception):
    """Tasks pending but nothing ready, parked or timed."""


class StepCap(Exception):
    """The run exceeded its scheduler-decision budget (run is discarded)."""


class Parked:
    __slots__ = ("pid", "task", "label", "fut", "job", "kind")

    def __init__(self, pid, task, label, fut, job=None, kind="await"):
        self.pid = pid
        self.task = task
        self.label = label
        self.fut = fut
        self.job = job
        self.kind = kind

    def describe(self) -> str:
        return f"{self.task}:{self.label}"


class SimLoop(asyncio.AbstractEventLoop):
    def __init__(self, scheduler, *, step_cap: int = 20000) -> None:
        self.sched = scheduler
        self.step_cap = step_cap
        self._ready: collections.deque = collections.deque()
        self._timers: list = []
        self._time = 0.0
        self._seq = 0
        self._parked: list[Parked] = []
        self._task_seq = 0
        self._closed = False
        self._running = False
        # history
        self.decisions: list[tuple[int, int]] = []  # (chosen index, n choices)
        self.labels: list[str] = []  # label of the chosen item, for humans/digests
        self.unhandled: list[dict] = []
        self.on_decision: Callable[[], None] | None = None
        self.parks_total = 0
        self.jobs_total = 0
        self.max_parked = 0
        self.overlap_decisions = 0  # decisions taken with >=2 distinct tasks parked
        self.job_task: str | None = None  # task owning the executor job being run

    # ------------------------------------------------------------------ seams
    @property
    def decision_no(self) -> int:
        return len(self.decisions)

    def park(self, label: str, kind: str = "await") -> asyncio.Future:
        """Return a future completed when the scheduler releases it."""
        fut = self.create_future()
        task = asyncio.current_task(self)
        tname = task.get_name() if task is not None else "-"
        self._seq += 1
        self._parked.append(Parked(self._seq, tname, label, fut, None, kind))
        self.parks_total += 1
        return fut

    def run_in_executor(self, executor, func, *args):  # type: ignore[override]
        fut = self.create_future()
        task = asyncio.current_task(self)
        tname = task.get_name() if task is not None else "-"
        self._seq += 1
        fname = getattr(func, "__name__", None) or getattr(
            getattr(func, "func", None), "__name__", "job"
        )
        self._parked.append(
            Parked(self._seq, tname, f"exec:{fname}", fut, (func, args), "exec")
        )
        self.jobs_total += 1
        return fut

    # -------------------------------------------------------------- main loop
    def run_until_complete(self, coro):  # type: ignore[override]
        if self._running:
            raise RuntimeError("SimLoop is already running")
        main = self.create_task(coro, name="main")
        self._running = True
        old = events._get_running_loop()
        events._set_running_loop(self)
        try:
            while not main.done():
                self._run_once()
        finally:
            events._set_running_loop(old)
            self._running = False
        return main.result()

    def _run_once(self) -> None:
        if self._ready:
            for _ in range(len(self._ready)):
                h = self._ready.popleft()
                if not h._cancelled:
                    h._run()
            return
        if self._parked:
            self._parked = [p for p in self._parked if not p.fut.done()]
        if self._parked:
            if len(self.decisions) >= self.step_cap:
                raise StepCap()
            n = len(self._parked)
            if n > self.max_parked:
                self.max_parked = n
            if n > 1 and len({p.task for p in self._parked}) > 1:
                self.overlap_decisions += 1
            idx = self.sched.choose(self._parked, len(self.decisions))
            if not 0 <= idx < n:
                idx %= n
            p = self._parked.pop(idx)
            self.decisions.append((idx, n))
            self.labels.append(p.describe())
            self._release(p)
            if self.on_decision is not None:
                self.on_decision()
            return
        if self._timers:
            when, _, h = heapq.heappop(self._timers)
            if when > self._time:
                self._time = when
            if not h._cancelled:
                self._ready.append(h)
            return
        raise Deadlock("tasks pending but nothing is runnable")

    def _release(self, p: Parked) -> None:
        if p.job is not None:
            func, args = p.job
            self.job_task = p.task
            try:
                res = func(*args)
            except BaseException as exc:  # noqa: BLE001 - delivered to the awaiter
                if isinstance(exc, (SystemExit, KeyboardInterrupt)):
                    raise
                p.fut.set_exception(exc)
            else:
                p.fut.set_result(res)
            finally:
                self.job_task = None
        else:
            p.fut.set_result(None)

    # ------------------------------------------------- AbstractEventLoop API
    def call_soon(self, callback, *args, context=None):  # type: ignore[override]
        h = asyncio.Handle(callback, args, self, context)
        self._ready.append(h)
        return h

    call_soon_threadsafe = call_soon  # single threaded by construction

    def call_later(self, delay, callback, *args, context=None):  # type: ignore[override]
        return self.call_at(self._time + max(0.0, delay), callback, *args, context=context)

    def call_at(self, when, callback, *args, context=None):  # type: ignore[override]
        h = asyncio.TimerHandle(when, callback, args, self, context)
        self._seq += 1
        heapq.heappush(self._timers, (when, self._seq, h))
        h._scheduled = True
        return h

    def _timer_handle_cancelled(self, handle) -> None:
        pass

    def time(self) -> float:
        return self._time

    def create_future(self) -> asyncio.Future:
        return asyncio.Future(loop=self)

    def create_task(self, coro, *, name=None, context=None):  # type: ignore[override]
        if name is None:
            self._task_seq += 1
            name = f"t{self._task_seq}"
        if context is None:
            return asyncio.Task(coro, loop=self, name=name)
        return asyncio.Task(coro, loop=self, name=name, context=context)

    def get_debug(self) -> bool:
        return False

    def set_debug(self, enabled: bool) -> None:
        pass

    def is_running(self) -> bool:
        return self._running

    def is_closed(self) -> bool:
        return self._closed

    def close(self) -> None:
        self._closed = True

    def call_exception_handler(self, context: dict[str, Any]) -> None:
        self.unhandled.append(
            {
                "message": str(context.get("message")),
                "exception": repr(context.get("exception")),
            }
        )

    def default_exception_handler(self, context):  # type: ignore[override]
        self.call_exception_handler(context)

    def get_exception_handler(self):  # type: ignore[override]
        return None

    def set_exception_handler(self, handler) -> None:  # type: ignore[override]
        pass

    async def shutdown_asyncgens(self) -> None:
        pass

    async def shutdown_default_executor(self, timeout=None) -> None:
        pass

    def get_task_factory(self):  # type: ignore[override]
        return None

    def set_task_factory(self, factory) -> None:  # type: ignore[override]
        pass

    def stop(self) -> None:
        raise RuntimeError("SimLoop.stop() is not supported")

    def run_forever(self) -> None:
        raise RuntimeError("SimLoop.run_forever() is not supported")


def current_loop() -> SimLoop | None:
    loop = events._get_running_loop()
    return loop if isinstance(loop, SimLoop) else None


async def park(label: str, kind: str = "await") -> None:
    """Park the current task until the scheduler releases it.

    Outside a SimLoop (sync reference executions never get here) this is a no-op.
    """
    loop = current_loop()
    if loop is not None:
        await loop.park(label, kind)


def task_name() -> str:
    """Name of the simulated task on whose behalf code is running ('-' if none)."""
    loop = events._get_running_loop()
    if loop is None:
        from . import threads as _threads
        return _threads.current_name() or "-"
    if isinstance(loop, SimLoop) and loop.job_task is not None:
        return loop.job_task
    t = asyncio.current_task(loop)
    return t.get_name() if t is not None else "-"
