#!/bin/bash
# usage: tools/soak.sh <first-seed> <n-seeds> [tier]   -- false-alarm soak on the current /repo: every VIOLATION printed is to be triaged
S=${1:-100}; N=${2:-10}; T=${3:-quick}
for ((s=S; s<S+N; s++)); do
  for id in C03 C09 C14; do
    out=$(VERIF_SEED=$s ./check $id --tier $T --no-evidence 2>&1); rc=$?
    echo "seed=$s $id rc=$rc $(echo "$out" | grep 'runs=' | sed 's/.*runs=/runs=/' | cut -c1-90)"
    echo "$out" | grep -E "^VIOLATION|HARNESS" | head -5
  done
done
