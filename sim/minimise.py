"""Minimisation of a failing plan (ops + faults + schedule decisions).

A candidate is kept iff the *same violation signature* still occurs when the
candidate is executed in a fresh forked child.  Order: drop op chunks (ddmin),
drop tasks from concurrent batches, drop optional op fields, zero schedule
decisions from the end (prefer FIFO).  Bounded by executions and wall time.
"""

from __future__ import annotations

import copy
import time

MAX_EXEC = 600
MAX_WALL = 45.0


def _sig(res: dict) -> str | None:
    if res.get("status") != "violation":
        return None
    return (res.get("violation") or {}).get("sig")


def minimise_ops(engine, v: dict, in_child, ops_key: str = "ops") -> dict:
    plan = v["plan"]
    want = (v.get("violation") or {}).get("sig")
    t0 = time.monotonic()
    n_exec = 0

    def still_fails(cand: dict):
        nonlocal n_exec
        if n_exec >= MAX_EXEC or time.monotonic() - t0 > MAX_WALL:
            return None
        n_exec += 1
        res = in_child(engine.replay, cand, 30)
        if _sig(res) == want:
            return res
        return None

    best = copy.deepcopy(plan)
    best_res = still_fails(best)
    if best_res is None:
        v["minimised"] = False
        v["replay_reproduces"] = False
        return v
    best["decisions"] = best_res.get("decisions", best.get("decisions"))

    # 1. ddmin over ops
    ops = best[ops_key]
    chunk = max(1, len(ops) // 2)
    while chunk >= 1 and len(ops) > 1:
        i = 0
        changed = False
        while i < len(ops):
            cand_ops = ops[:i] + ops[i + chunk:]
            if not cand_ops:
                i += chunk
                continue
            cand = {**best, ops_key: cand_ops}
            r = still_fails(cand)
            if r is not None:
                ops = cand_ops
                best = cand
                best_res = r
                best["decisions"] = r.get("decisions", best.get("decisions"))
                changed = True
            else:
                i += chunk
        if not changed:
            chunk //= 2
        if n_exec >= MAX_EXEC or time.monotonic() - t0 > MAX_WALL:
            break

    # 2. drop init mutations, tasks from batches, optional fields
    for key in ("init",):
        items = best.get(key)
        if isinstance(items, list):
            i = 0
            while i < len(items) and len(items) > 0:
                cand = {**best, key: items[:i] + items[i + 1:]}
                r = still_fails(cand)
                if r is not None:
                    items = cand[key]
                    best = cand
                    best_res = r
                    best["decisions"] = r.get("decisions", best.get("decisions"))
                else:
                    i += 1
    for oi, op in enumerate(list(best[ops_key])):
        if op.get("tasks"):
            ti = 0
            while ti < len(best[ops_key][oi]["tasks"]) and len(best[ops_key][oi]["tasks"]) > 1:
                cand = copy.deepcopy(best)
                tasks = cand[ops_key][oi]["tasks"]
                dropped = tasks.pop(ti)
                # keep cancel targets pointing at the same task
                ok = True
                for tk in tasks:
                    if tk.get("t") == "cancel":
                        if tk["target"] == ti and dropped.get("t") == "lr":
                            ok = False
                        elif tk["target"] > ti:
                            tk["target"] -= 1
                r = still_fails(cand) if ok else None
                if r is not None:
                    best = cand
                    best_res = r
                    best["decisions"] = r.get("decisions", best.get("decisions"))
                else:
                    ti += 1
        for fld in ("g", "ns_kw", "fault"):
            if fld in best[ops_key][oi]:
                cand = copy.deepcopy(best)
                cand[ops_key][oi].pop(fld)
                r = still_fails(cand)
                if r is not None:
                    best = cand
                    best_res = r
                    best["decisions"] = r.get("decisions", best.get("decisions"))

    # 2b. shrink template sources (programs, partials, parsed steps): drop markup chunks
    def src_slots(p):
        out = []
        for i, pr in enumerate(p.get("programs") or []):
            out.append(("programs", i, "src"))
        for k in list((p.get("partials") or {})):
            out.append(("partials", k, None))
        for i, st in enumerate(p.get(ops_key) or []):
            if isinstance(st, dict) and isinstance(st.get("src"), str) and st.get("prog") == "gen":
                out.append((ops_key, i, "src"))
        for ei, e in enumerate(p.get("envs") or []):
            for k in list((e.get("partials") or {})):
                out.append(("envs", ei, ("partials", k)))
        return out

    def get_src(p, slot):
        a, b, c = slot
        if a == "partials":
            return p["partials"][b]
        if a == "envs":
            return p["envs"][b][c[0]][c[1]]
        return p[a][b][c]

    def set_src(p, slot, v):
        a, b, c = slot
        if a == "partials":
            p["partials"][b] = v
        elif a == "envs":
            p["envs"][b][c[0]][c[1]] = v
        else:
            p[a][b][c] = v

    import re as _re
    chunk_re = _re.compile(r"(\{%.*?%\}|\{\{.*?\}\}|\{#.*?#\})", _re.S)
    for slot in src_slots(best):
        if n_exec >= MAX_EXEC or time.monotonic() - t0 > MAX_WALL:
            break
        try:
            src = get_src(best, slot)
        except (KeyError, IndexError, TypeError):
            continue
        parts = [x for x in chunk_re.split(src) if x != ""]
        if len(parts) < 2:
            continue
        size = max(1, len(parts) // 2)
        while size >= 1 and len(parts) > 1:
            i = 0
            progressed = False
            while i < len(parts):
                cand_parts = parts[:i] + parts[i + size:]
                cand = copy.deepcopy(best)
                set_src(cand, slot, "".join(cand_parts))
                r = still_fails(cand)
                if r is None and (n_exec >= MAX_EXEC or time.monotonic() - t0 > MAX_WALL):
                    break
                if r is not None:
                    parts = cand_parts
                    best = cand
                    best_res = r
                    best["decisions"] = r.get("decisions", best.get("decisions"))
                    progressed = True
                else:
                    i += size
            if n_exec >= MAX_EXEC or time.monotonic() - t0 > MAX_WALL:
                break
            if not progressed:
                size //= 2

    # 3. prefer FIFO decisions, from the end backwards
    dec = best.get("decisions") or {}
    for sid in sorted(dec, key=str):
        seq = dec[sid]
        for j in range(len(seq) - 1, -1, -1):
            if seq[j] == 0:
                continue
            cand = copy.deepcopy(best)
            cand["decisions"][sid][j] = 0
            r = still_fails(cand)
            if r is not None:
                best = cand
                best_res = r
                best["decisions"] = r.get("decisions", best["decisions"])
                seq = best["decisions"].get(sid, [])
            if n_exec >= MAX_EXEC or time.monotonic() - t0 > MAX_WALL:
                break

    # final confirmation in a fresh process
    final = in_child(engine.replay, best, 30)
    v2 = dict(v)
    v2["original_ops"] = len(plan[ops_key])
    v2["plan"] = best
    v2["violation"] = final.get("violation") if _sig(final) == want else best_res.get("violation")
    v2["minimised"] = True
    v2["minimise_executions"] = n_exec
    v2["replay_reproduces"] = _sig(final) == want
    return v2
