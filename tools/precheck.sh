#!/bin/bash
# what `vp check` will do (VERIF_SEED=1, quick) plus two more seeds; prints only alarms and summaries
for s in 1 2 3; do for id in C03 C09 C14; do
  out=$(VERIF_SEED=$s ./check $id --no-evidence 2>&1); rc=$?
  echo "seed=$s $id rc=$rc $(echo "$out" | grep 'runs=' | sed 's/.*runs=/runs=/' | cut -c1-80)"; echo "$out" | grep -E "^VIOLATION|HARNESS" | head -3
done; done
