"""Self-tests of the machinery: determinism of simulated runs.

Every run seed is executed in several process layouts (16 workers, 4 workers)
and in a fresh interpreter under another PYTHONHASHSEED; the SHA-256 of the full
run result (plan digest, scheduler decisions, counters, outcome, violation) must
be identical everywhere.  A mismatch is a harness error (exit 2).
"""

from __future__ import annotations

import json
import os
import subprocess
import sys

HERE = os.path.dirname(os.path.dirname(os.path.abspath(__file__)))
ENGINES = {"C03": "checks.c03", "C09": "checks.c09", "C14": "checks.c14"}


def collect(engine: str, n: int, workers: int, master: int) -> dict[str, str]:
    from sim import runner

    total = runner.run_batch(ENGINES[engine], tier="quick", master=master, n_runs=n, workers=workers,
                             wall_cap_s=900, opts={"collect": True})
    return {str(s): f"{d}:{st}" for s, d, st in total.get("collected", [])}


def determinism(engines: list[str], n: int, workers: int) -> int:
    master = int(os.environ.get("VERIF_SEED", "20261004"))
    bad = 0
    for e in engines:
        a = collect(e, n, max(2, workers), master)
        b = collect(e, n, 4, master)
        env = dict(os.environ)
        env["VERIF_HASHSEED"] = "12345"
        env.pop("_VERIF_REEXEC", None)
        env.pop("PYTHONHASHSEED", None)
        out = subprocess.run([os.path.join(HERE, "check"), "selftest-collect", "--engines", e, "--seeds", str(n),
                              "--workers", "7"], env=env, capture_output=True, text=True, timeout=1800)
        try:
            c = json.loads(out.stdout.strip().splitlines()[-1])
        except Exception:  # noqa: BLE001
            print(f"HARNESS-ERROR selftest-collect failed for {e}: {out.stdout[-500:]} {out.stderr[-500:]}")
            return 2
        diff = [s for s in a if not (a[s] == b.get(s) == c.get(s))]
        statuses = {}
        for v in a.values():
            st = v.split(":", 1)[1]
            statuses[st] = statuses.get(st, 0) + 1
        print(f"[selftest-determinism] {e}: {len(a)} seeds x 3 layouts (16 workers / 4 workers / fresh interpreter "
              f"PYTHONHASHSEED=12345, 7 workers): {len(diff)} mismatching; statuses {statuses}")
        for s in diff[:5]:
            print("   seed", s, a[s], b.get(s), c.get(s))
        bad += len(diff)
    return 2 if bad else 0


def collect_main(engines: list[str], n: int, workers: int) -> int:
    master = int(os.environ.get("VERIF_SEED", "20261004"))
    res = collect(engines[0], n, workers, master)
    print(json.dumps(res))
    return 0
