"""G-prog: depth-bounded random Liquid programs over the whole built-in language.

Pure function of the ``random.Random`` passed in.  Emits plain strings/dicts so
a plan can be written to a replay file.  Programs need not be meaningful: the
oracles are differential; ill-formed or failing programs are kept on purpose.
"""

from __future__ import annotations

import random

PARTIAL_NAMES = ("snippets/card.html", "snippets/row", "a/b/c.liquid", "p0", "item.html",
                 "shared/user_line")
LAYOUT_NAMES = ("layouts/base", "layouts/mid.html", "layouts/leaf")

WORDS = ("alpha", "beta", "Gamma", "delta", "x<y>&z", "héllo wörld", "  padded  ", "a,b,c",
         "line1\nline2", "", "0", "42", "3.5", "<b>bold</b>", "it's", 'say "hi"')


def make_data(rng: random.Random) -> dict:
    def product(i):
        return {
            "title": rng.choice(WORDS) or f"P{i}",
            "price": rng.choice([0, 1, 5, 9.99, 12, 100, -3]),
            "tags": rng.sample(["red", "blue", "sale", "new", "x"], rng.randint(0, 3)),
            "variants": [{"sku": f"S{i}{j}", "qty": rng.randint(0, 5)} for j in range(rng.randint(0, 2))],
            "meta": {"k": rng.choice(WORDS), "n": i},
            "active": rng.random() < 0.6,
        }

    return {
        "user": {
            "name": rng.choice(["alice", "bob", "Zoë", "<script>", "o'neil"]),
            "age": rng.randint(0, 99),
            "tags": rng.sample(["admin", "staff", "vip", "new"], rng.randint(0, 3)),
            "address": {"city": rng.choice(["Paris", "København", ""]), "zip": "75001"},
            "active": rng.random() < 0.5,
            "first": "F!",
            "size": 77,
        },
        "products": [product(i) for i in range(rng.randint(0, 4))],
        "n": rng.choice([0, 1, 2, 3, 5, -1]),
        "m": rng.choice([1, 2, 10]),
        "s": rng.choice(WORDS),
        "t": rng.choice(WORDS),
        "flag": rng.random() < 0.5,
        "nothing": None,
        "nested": [[1, 2], [3, [4, 5]], []],
        "h": {"a": 1, "b": "two", "key with space": 3, "list": [1, 2, 3]},
        "words": rng.sample(list(WORDS), rng.randint(0, 5)),
        "nums": [rng.randint(-5, 20) for _ in range(rng.randint(0, 6))],
        "key": rng.choice(["name", "age", "missing", "first"]),
        "idx": rng.choice([0, 1, -1, 7]),
        "pname": rng.choice(PARTIAL_NAMES),
        "slugs": {"a": "name", "b": "a", "name": "tags", "alice": "age"},
        "sa": rng.choice(["a", "b", "zz"]),
        "bombs": [1, {"__strobj__": "B"}, 3],
        "sobj": {"__strobj__": rng.choice(["S", "s<b>", "42"])},
        "kobj": {"__liquid__": rng.choice(["name", "age", "tags", "missing", "size", "first", "last", "size", "first", "last"])},
        "iobj": {"__liquid__": rng.choice([0, 1, -1, 5])},
        **({} if rng.random() < 0.5 else {
            # render-context variables read by the Babel filters
            "locale": rng.choice(["en_US", "de", "fr_CA", "ja"]),
            "timezone": rng.choice(["UTC", "America/New_York", "Asia/Tokyo"]),
            "input_timezone": rng.choice(["UTC", "Europe/Paris", "Australia/Sydney"]),
            "currency_code": rng.choice(["USD", "EUR", "JPY"]),
            "datetime_format": rng.choice(["short", "medium", "long", "yyyy.MM.dd HH:mm"]),
        }),
    }


class ProgGen:
    def __init__(self, rng: random.Random, *, shopify: bool = False, max_depth: int = 3,
                 allow_partials: bool = True, allow_extends: bool = True) -> None:
        self.rng = rng
        self.shopify = shopify
        self.max_depth = max_depth
        self.partials: dict[str, str] = {}
        self.allow_partials = allow_partials
        self.allow_extends = allow_extends
        self.locals: list[str] = []
        self.macros: list[str] = []
        self.in_partial = 0
        kinds = ["text", "output", "assign", "capture", "if", "unless", "case", "for",
                 "cycle", "incdec", "echo", "liquid", "raw", "comment", "with", "macro",
                 "call", "include", "render", "translate", "ternary", "tstring", "limitcarry"]
        if shopify:
            kinds.append("tablerow")
        # swarm: random weights, a few kinds switched off per program
        self.weights = {k: rng.choice([0, 1, 1, 2, 3]) for k in kinds}
        self.weights["text"] = 2
        self.weights["output"] = 4
        if shopify:
            self.weights["tablerow"] = rng.choice([2, 3, 4])
        self.kinds = kinds

    # ----------------------------------------------------------- expressions
    def path(self) -> str:
        r = self.rng
        base = [
            "user.name", "user.age", "user.tags", "user.address.city", "user['name']",
            "user[key]", "user.tags.first", "user.tags.last", "user.tags.size", "user.first",
            "user.size", "user.address.size", "products", "products.size", "products[0].title",
            "products.first.title", "products.last.price", "products[idx].title",
            "products[0].variants[0].sku", "products[0].tags", "products[1].meta.k", "n", "m", "s",
            "t", "flag", "nothing", "nested", "nested[1][1][0]", "nested.first", "nested.last.size",
            "h.a", "h['key with space']", "h.list", "h.list.last", "h.first", "h.size", "words",
            "words.first", "nums", "nums.size", "nums[1]", "ghost", "ghost.x.y", "user.ghost",
            "products[99].title", "user.tags[n]", "now", "forloop.index", "forloop.parentloop.index0",
            "who", "item", "item.title", "item.price", "p.title", "args", "kwargs", "block.super",
            "matter_ns", "matter_ns", "bombs", "sobj", "bombs[1]", "products.0.title", "nums.1", "nested.1.0", "user.tags.0", "h.list.2",
            "gv", "extra", "shared.n", "n.size", "user.age.first", "flag.last", "s.first", "s.last", "s.size", "nothing.first", "m.last",
        ]
        if self.locals and r.random() < 0.3:
            return r.choice(self.locals)
        if r.random() < 0.14:
            return r.choice(["products[nums[idx]].title", "nested[nums[1]][0]", "user[slugs[sa]]", "words[nums[nums[1]]]",
                             "h[slugs[user[key]]]", "user[slugs[slugs.b]]", "products[h.list[nums[iobj]]].title",
                             "user[kobj]", "h[kobj]", "nums[kobj]", "user.tags[kobj]", "products[kobj]", "h.list[kobj]",
                             "words[kobj]", "nested[kobj]", "products[iobj].title", "nums[iobj]", "user.tags[iobj]", "words[iobj]",
                             "cfgd.items", "shared.list", "cfgd.items[0]", "shared.n", "cfgd.k",
                             "products[idx].title", "user[key]", "user.tags[n]", "h[key]", "products[n].tags[idx]",
                             "nested[n][idx]", "h.list[n]", "products[user.tags.size].title", "user[h.b]",
                             "products[products.size].title", "words[nums[1]]", "h[user.first]"])
        return r.choice(base)

    def literal(self) -> str:
        r = self.rng
        c = r.random()
        if c < 0.3:
            return repr(r.choice(["a", "b c", "x,y", "%Y", "title", "name"])).replace('"', "'")
        if c < 0.5:
            return str(r.choice([0, 1, 2, 3, 10, -1, 2.5, 1e3]))
        if c < 0.6:
            return r.choice(["true", "false", "nil", "empty", "blank"])
        if c < 0.7:
            return f"({r.choice(['1', 'n', 'm'])}..{r.choice(['3', 'm', 'nums.size', 'user.age'])})"
        if c < 0.8:
            return "'" + r.choice(["Hi ${user.name}!", "${n}+${m}", "v=${products[0].title | upcase}",
                                   "\\${raw} ${ s }"]) + "'"
        return '"' + r.choice(["dq", "it's", "", " "]) + '"'

    def primitive(self) -> str:
        return self.path() if self.rng.random() < 0.65 else self.literal()

    S_PATHS = ("user.name", "user.address.city", "s", "t", "products[0].title", "products.first.title",
               "user.tags.first", "words.first", "h.b", "products[1].meta.k", "user['name']", "user[key]")
    N_PATHS = ("n", "m", "user.age", "nums.size", "products.size", "products[0].price", "nums[1]", "h.a",
               "user.tags.size", "products.last.price", "idx")
    AP_PATHS = ("products",)
    AS_PATHS = ("user.tags", "words", "products[0].tags")
    AN_PATHS = ("nums", "h.list", "(1..3)", "(1..n)", "cfgd.items", "shared.list")

    def typed_base(self) -> tuple[str, str]:
        r = self.rng
        c = r.random()
        if c < 0.04:
            return "D", r.choice(["'2024-01-15 10:30'", "'March 3 2021 23:59'", "'2001-02-03T04:05:06'", "'1999-12-31'",
                                  "86400", "'86400'", "now", "'today'"])
        if c < 0.3:
            return "S", r.choice(self.S_PATHS) if r.random() < 0.8 else repr(r.choice(WORDS[:6])).replace('"', "'")
        if c < 0.5:
            return "N", r.choice(self.N_PATHS) if r.random() < 0.8 else str(r.choice([0, 1, 2, 7, -3, 2.5]))
        if c < 0.65:
            return "AP", "products"
        if c < 0.78:
            return "AS", r.choice(self.AS_PATHS)
        if c < 0.88:
            return "AN", r.choice(self.AN_PATHS)
        return "ANY", self.primitive()

    def s_arg(self) -> str:
        r = self.rng
        return r.choice(self.S_PATHS) if r.random() < 0.5 else repr(r.choice(["a", ",", " ", "x", "l", "-"])).replace('"', "'")

    def n_arg(self, nonzero: bool = False) -> str:
        r = self.rng
        if r.random() < 0.4:
            return r.choice(["m"] if nonzero else self.N_PATHS)
        return str(r.choice([1, 2, 3, 5] if nonzero else [0, 1, 2, 3, 5, -1]))

    def lam(self, kind: str = "bool") -> str:
        r = self.rng
        v = r.choice(["i", "x", "it"])
        if kind == "val":
            body = r.choice([f"{v}.title", f"{v}.price", f"{v}.meta.k", f"{v}.tags.first", f"{v}.variants[0].sku"])
        else:
            body = r.choice([
                f"{v}.price > {r.choice(['2', 'n'])}", f"{v}.active", f"{v}.tags contains 'sale'",
                f"{v}.meta.n <= m", f"'red' in {v}.tags", f"{v}.title == user.name",
                f"{v}.active and {v}.price >= n", f"not {v}.active",
            ])
        if r.random() < 0.15:
            return f"({v}, j) => {body}"
        return f"{v} => {body}"

    def typed_filter(self, kind: str) -> tuple[str, str]:
        """Return (filter text, result kind) for an input of ``kind``."""
        r = self.rng
        if r.random() < 0.0008:
            return "nosuchfilter", "ANY"
        if kind == "D":
            return r.choice([("datetime", "S"), ("datetime: format: 'long'", "S"), ("datetime: format: 'short'", "S"),
                             ("date: '%Y-%m-%d %H:%M'", "S"), ("date: '%A %d %B'", "S"), ("date: '%j'", "S"),
                             ("datetime: format: 'EEEE, d MMMM y HH:mm zzz'", "S")])
        if kind == "S":
            return r.choice([
                ("upcase", "S"), ("downcase", "S"), ("capitalize", "S"), (f"append: {self.s_arg()}", "S"),
                (f"prepend: {self.s_arg()}", "S"), ("size", "N"), (f"split: {self.s_arg()}", "AS"),
                ("escape", "S"), ("escape_once", "S"), ("strip", "S"), ("lstrip", "S"), ("rstrip", "S"),
                ("strip_html", "S"), ("strip_newlines", "S"), ("newline_to_br", "S"),
                (f"truncate: {self.n_arg()}", "S"), (f"truncatewords: {self.n_arg()}", "S"),
                (f"truncate: {self.n_arg()}, {self.s_arg()}", "S"),
                (f"replace: {self.s_arg()}, {self.s_arg()}", "S"), (f"replace_first: {self.s_arg()}, {self.s_arg()}", "S"),
                (f"replace_last: {self.s_arg()}, {self.s_arg()}", "S"), (f"remove: {self.s_arg()}", "S"),
                (f"remove_first: {self.s_arg()}", "S"), (f"remove_last: {self.s_arg()}", "S"),
                (f"slice: {self.n_arg()}", "S"), (f"slice: {self.n_arg()}, {self.n_arg()}", "S"),
                ("url_encode", "S"), ("url_decode", "S"), ("safe", "S"), ("t", "S"), ("t: who: user.name", "S"),
                ("gettext", "S"), (f"ngettext: 'plural %(count)s', {self.n_arg()}", "S"), ("pgettext: 'ctx'", "S"),
                (f"default: {self.s_arg()}", "S"), ("json", "S"), ("first", "S"), ("last", "S"),
                ("date: '%Y-%m-%d'", "S"), ("base64_encode" if self.shopify else "upcase", "S"),
            ])
        if kind == "N":
            return r.choice([
                (f"plus: {self.n_arg()}", "N"), (f"minus: {self.n_arg()}", "N"), (f"times: {self.n_arg()}", "N"),
                (f"divided_by: {self.n_arg(True)}", "N"), (f"modulo: {self.n_arg(True)}", "N"), ("abs", "N"),
                ("ceil", "N"), ("floor", "N"), (f"round: {self.n_arg()}", "N"), ("round", "N"),
                (f"at_least: {self.n_arg()}", "N"), (f"at_most: {self.n_arg()}", "N"), ("json", "S"),
                (f"default: {self.n_arg()}", "N"), ("currency", "S"), ("money", "S"), ("decimal", "S"),
                ("unit: 'length-meter'", "S"), ("date: '%H:%M'", "S"), ("datetime", "S"), (f"append: {self.s_arg()}", "S"),
                ("money_with_currency", "S"), ("decimal: group_separator: false", "S"),
            ])
        if kind == "AP":
            return r.choice([
                ("size", "N"), ("first", "ANY"), ("last", "ANY"), ("reverse", "AP"), ("sort: 'title'", "AP"),
                ("sort: 'price'", "AP"), ("sort_natural: 'title'", "AP"), ("sort_numeric: 'price'", "AP"),
                ("map: 'title'", "AS"), (f"map: {self.lam('val')}", "AS"), ("where: 'active'", "AP"),
                (f"where: 'title', {self.s_arg()}", "AP"), (f"where: {self.lam()}", "AP"), (f"reject: {self.lam()}", "AP"),
                ("reject: 'active'", "AP"), (f"find: {self.lam()}", "ANY"), (f"find: 'title', {self.s_arg()}", "ANY"),
                (f"find_index: {self.lam()}", "N"), (f"has: {self.lam()}", "ANY"), ("has: 'active'", "ANY"),
                ("uniq: 'title'", "AP"), ("compact: 'title'", "AP"), ("sum: 'price'", "N"), ("concat: products", "AP"),
                (f"slice: {self.n_arg()}, {self.n_arg()}", "AP"), ("json", "S"),
            ])
        if kind in ("AS", "AN"):
            opts = [
                ("size", "N"), ("first", "S" if kind == "AS" else "N"), ("last", "S" if kind == "AS" else "N"),
                ("reverse", kind), ("sort", kind), ("uniq", kind), ("compact", kind), (f"join: {self.s_arg()}", "S"),
                ("join", "S"), (f"concat: {r.choice(self.AS_PATHS + self.AN_PATHS[:2])}", kind), ("json", "S"),
                (f"slice: {self.n_arg()}, {self.n_arg()}", kind), (f"map: {r.choice(['x => x', 'i => i'])}", kind),
            ]
            if kind == "AS":
                opts += [("sort_natural", kind), (f"where: x => x == {self.s_arg()}", kind), (f"find: x => x contains {self.s_arg()}", "S")]
            else:
                opts += [("sum", "N"), ("sort_numeric", kind), (f"where: x => x > {self.n_arg()}", kind), (f"reject: x => x < {self.n_arg()}", kind)]
            return r.choice(opts)
        return r.choice([
            ("json", "S"), ("size", "N"), (f"default: {self.s_arg()}", "ANY"), (f"default: {self.s_arg()}, allow_false: true", "ANY"),
            ("first", "ANY"), ("last", "ANY"), ("upcase", "S"), ("join: ','", "S"), ("compact", "ANY"), ("plus: 1", "N"),
            ("sort", "ANY"), ("escape", "S"),
        ])

    def filt(self) -> str:
        return self.typed_filter(self.rng.choice(["S", "N", "AP", "AS", "AN", "ANY"]))[0]

    def filtered(self, maxf: int = 3) -> str:
        r = self.rng
        kind, e = self.typed_base()
        for _ in range(r.choice([0, 0, 1, 1, 2, maxf])):
            if r.random() < 0.08:
                kind = r.choice(["S", "N", "AP", "AS", "AN", "ANY"])  # deliberate type confusion
            f, kind = self.typed_filter(kind)
            e += " | " + f
        return e

    def cond(self, depth: int = 0) -> str:
        r = self.rng
        c = r.random()
        if depth < 2 and c < 0.25:
            return f"{self.cond(depth + 1)} {r.choice(['and', 'or'])} {self.cond(depth + 1)}"
        if depth < 2 and c < 0.32:
            return f"not {self.cond(depth + 1)}"
        if depth < 2 and c < 0.38:
            return f"({self.cond(depth + 1)})"
        if c < 0.55:
            return self.primitive()
        op = r.choice(["==", "!=", "<>", "<", ">", "<=", ">=", "contains", "in"])
        if r.random() < 0.06:   # the same (possibly unorderable) operand on both sides
            x = r.choice(["nothing", "ghost", "user.tags", "h", "nums", "user", "products", "nested", "flag", "s", "n",
                          "(1..3)", "empty", "blank", "user.ghost"])
            y = x if r.random() < 0.7 else r.choice(["nothing", "ghost", "nil"])
            return f"{x} {op} {y}"
        if r.random() < 0.12:
            return f"{self.primitive()} {op} {self.primitive()}"
        if op in ("<", ">", "<=", ">="):
            return f"{r.choice(self.N_PATHS)} {op} {self.n_arg()}"
        if op == "contains":
            return r.choice([f"{r.choice(self.AS_PATHS)} contains {self.s_arg()}", f"{r.choice(self.S_PATHS)} contains {self.s_arg()}",
                             f"h contains 'a'", f"nums contains {self.n_arg()}"])
        if op == "in":
            return r.choice([f"{self.s_arg()} in {r.choice(self.AS_PATHS)}", f"{self.n_arg()} in nums", f"'a' in h"])
        k, e = self.typed_base()
        other = {"S": self.s_arg, "N": self.n_arg}.get(k, self.primitive)()
        return f"{e} {op} {other}"

    def ternary(self) -> str:
        r = self.rng
        s = f"{self.filtered(1)} if {self.cond()}"
        if r.random() < 0.7:
            s += f" else {self.primitive()}"
            if r.random() < 0.4:
                s += " | " + self.filt()
        if r.random() < 0.4:
            s += " || " + self.filt()
        return s

    # ------------------------------------------------------------------ tags
    def wc(self) -> tuple[str, str]:
        r = self.rng
        if r.random() < 0.8:
            return "", ""
        return r.choice(["", "-", "~", "+"]), r.choice(["", "-", "~", "+"])

    def tag(self, body: str) -> str:
        a, b = self.wc()
        return "{%" + a + " " + body + " " + b + "%}"

    def out(self, body: str) -> str:
        a, b = self.wc()
        return "{{" + a + " " + body + " " + b + "}}"

    def block(self, depth: int, n: int | None = None) -> str:
        r = self.rng
        if n is None and depth > 0 and r.random() < 0.05:
            # a "blank" block: white space and at most side effects (suppress_blank_control_flow_blocks)
            ws = r.choice(["\n", "  ", " \n\t", "\n\n"])
            return ws + (r.choice(["{% assign bl = 'b' %}", "{% increment blc %}", ""]) if r.random() < 0.4 else "") + ws
        n = n if n is not None else r.randint(1, 4)
        return "".join(self.node(depth) for _ in range(n))

    def node(self, depth: int) -> str:
        r = self.rng
        kinds = self.kinds
        w = [self.weights[k] for k in kinds]
        if depth >= self.max_depth:
            kind = r.choice(["text", "output", "output", "assign", "echo", "cycle", "incdec"])
        else:
            kind = r.choices(kinds, w)[0]
        return getattr(self, "n_" + kind)(depth)

    BLANKS = ("{% if true %}\n \t{% endif %}", "{% if false %}x{% else %}\n{% endif %}",
              "{% unless false %} \n{% endunless %}", "{% for bq in (1..2) %}\n{% endfor %}",
              "{% case 1 %}{% when 1 %}\n \t{% endcase %}",
              "{% for bq in (1..2) %} {% assign bl = bq %} {% endfor %}",
              "{% if true %} {% comment %}c{% endcomment %} {% endif %}")

    def n_text(self, depth):
        if self.rng.random() < 0.12:
            return self.rng.choice(self.BLANKS)
        return self.rng.choice(["txt ", "\n", "  ", "<p>", "&amp;", "[", "]", "word\n  ", "-"])

    def n_output(self, depth):
        return self.out(self.filtered())

    def n_ternary(self, depth):
        return self.out(self.ternary())

    def n_tstring(self, depth):
        return self.out("'" + self.rng.choice(["a ${user.name} b", "${ n | plus: m }", "${products.first.title}${s}"]) + "'"
                        + ("" if self.rng.random() < 0.5 else " | " + self.filt()))

    def n_assign(self, depth):
        r = self.rng
        v = r.choice(["x", "y", "acc", "who", "item", "s", "t", "x", "y", "gv", "extra", "shared", "cfgd"])  # never n/m: they bound ranges and limits
        self.locals.append(v)
        c = r.random()
        if c < 0.15:
            e = ", ".join(self.primitive() for _ in range(r.randint(2, 4)))
            if r.random() < 0.5:
                e += " | " + self.filt()
        elif c < 0.3:
            e = self.ternary()
        else:
            e = self.filtered()
        return self.tag(f"assign {v} = {e}")

    def n_capture(self, depth):
        v = self.rng.choice(["cap", "x", "buf"])
        self.locals.append(v)
        return self.tag(f"capture {v}") + self.block(depth + 1, 2) + self.tag("endcapture")

    def n_if(self, depth):
        r = self.rng
        s = self.tag("if " + self.cond()) + self.block(depth + 1)
        for _ in range(r.choice([0, 0, 1, 2])):
            s += self.tag("elsif " + self.cond()) + self.block(depth + 1)
        if r.random() < 0.5:
            s += self.tag("else") + self.block(depth + 1)
        return s + self.tag("endif")

    def n_unless(self, depth):
        r = self.rng
        s = self.tag("unless " + self.cond()) + self.block(depth + 1)
        if r.random() < 0.3:
            s += self.tag("elsif " + self.cond()) + self.block(depth + 1)
        if r.random() < 0.4:
            s += self.tag("else") + self.block(depth + 1)
        return s + self.tag("endunless")

    def n_case(self, depth):
        r = self.rng
        s = self.tag("case " + self.primitive())
        for _ in range(r.randint(1, 3)):
            vals = [self.primitive() for _ in range(r.randint(1, 3))]
            s += self.tag("when " + r.choice([", ", " or "]).join(vals)) + self.block(depth + 1, 1)
        if r.random() < 0.6:
            s += self.tag("else") + self.block(depth + 1, 1)
        return s + self.tag("endcase")

    def loop_expr(self) -> str:
        r = self.rng
        v = r.choice(["item", "p", "i", "w"])
        src = r.choice(["products", "products", "products", "user.tags", "nums", "words", "(1..n)", "(1..3)",
                        "h", "nested", "products[0].variants", "h.list", "products", "user.tags",
                        r.choice(["s", "nothing", "user", "ghost", "n"])])
        s = f"{v} in {src}"
        if r.random() < 0.3:
            s += f" limit: {r.choice(['1', '2', 'n', 'm'])}"
        if r.random() < 0.3:
            s += f" offset: {r.choice(['1', 'n', 'continue', repr('1'), repr('x')])}"
        if r.random() < 0.2:
            s += " reversed"
        return s

    def n_for(self, depth):
        r = self.rng
        if r.random() < 0.15:
            inner = (self.tag("for j in " + r.choice(["user.tags", "nums", "(1..2)", "i.tags", "i.variants"]))
                     + self.out("forloop.parentloop.index") + "." + self.out("forloop.index") + "/"
                     + self.out(r.choice(["forloop.parentloop.length", "forloop.parentloop.first", "forloop.parentloop.name",
                                          "forloop.parentloop.parentloop.index", "j"])) + " " + self.tag("endfor"))
            return self.tag("for i in " + r.choice(["products", "(1..2)", "nested", "user.tags"])) + inner + self.tag("endfor")
        body = self.block(depth + 1)
        if r.random() < 0.3:
            body += self.tag("if " + self.cond()) + self.tag(r.choice(["break", "continue"])) + self.tag("endif")
        if r.random() < 0.4:
            body += self.out(r.choice(["forloop.index", "forloop.first", "forloop.last", "forloop.rindex0",
                                       "forloop.length", "forloop.name", "forloop.parentloop.index"]))
        s = self.tag("for " + self.loop_expr()) + body
        if r.random() < 0.35:
            s += self.tag("else") + self.block(depth + 1, 1)
        return s + self.tag("endfor")

    def n_tablerow(self, depth):
        r = self.rng
        if r.random() < 0.35:   # interrupts at chosen cells: row boundaries, last column, last row
            n, cols, at = r.choice([4, 5, 6]), r.choice([2, 3]), r.randint(1, 6)
            return (self.tag(f"tablerow i in (1..{n}) cols: {cols}" + r.choice(["", " limit: 4", " offset: 1"]))
                    + "{{ i }}{{ tablerowloop.col_last }}" + self.tag(f"if i == {at}") + self.tag(r.choice(["break", "continue"]))
                    + self.tag("endif") + "." + self.tag("endtablerow"))
        e = self.loop_expr().replace(" reversed", "")
        if r.random() < 0.6:
            e += f" cols: {r.choice(['2', '3', 'n', 'm', '2', '3', 'n', 'm', '0', 'ghost', 's', 'nothing', '1'])}"
        body = self.block(depth + 1, 1) + self.out(r.choice(["tablerowloop.col", "tablerowloop.row",
                                                              "tablerowloop.col_last", "item"]))
        if r.random() < 0.35:
            body += self.tag("if " + self.cond()) + self.tag(r.choice(["break", "continue"])) + self.tag("endif") + "t"
        return self.tag("tablerow " + e) + body + self.tag("endtablerow")

    def n_limitcarry(self, depth):
        """Loops nested THROUGH a macro call / partial / capture: loop-iteration and
        namespace limits must be carried across those boundaries (in both twins)."""
        r = self.rng
        rng_a = r.choice(["(1..3)", "(1..m)", "nums", "products"])
        rng_b = r.choice(["(1..3)", "(1..4)", "user.tags", "(1..m)"])
        inner = self.tag(f"for q in {rng_b}") + self.out("q") + self.tag("endfor")
        k = r.random()
        if k < 0.4:
            name = r.choice(["lm", "'loopy'"])
            self.macros.append(name)
            return (self.tag(f"macro {name} a") + inner + self.out("a") + self.tag("endmacro")
                    + self.tag(f"for i in {rng_a}") + self.tag(f"call {name} i") + self.tag("endfor"))
        if k < 0.7 and self.allow_partials:
            pn = r.choice(["snippets/loop.html", "loops/inner"])
            self.partials.setdefault(pn, inner + "{{ i }}")
            how = r.choice([f"render '{pn}', i: i", f"include '{pn}'", f"render '{pn}' for {rng_b} as i"])
            return self.tag(f"for i in {rng_a}") + self.tag(how) + self.tag("endfor")
        return (self.tag(f"for i in {rng_a}") + self.tag("capture lc") + inner + self.tag("endcapture")
                + self.out("lc") + self.tag("endfor"))

    def n_cycle(self, depth):
        r = self.rng
        vals = ", ".join(self.primitive() for _ in range(r.randint(1, 3)))
        if r.random() < 0.4:
            return self.tag(f"cycle {r.choice(['g1', 'g2', 's'])}: {vals}")
        return self.tag(f"cycle {vals}")

    def n_incdec(self, depth):
        r = self.rng
        return self.tag(f"{r.choice(['increment', 'decrement'])} {r.choice(['c1', 'c2', 'flag', 'x'])}")

    def n_echo(self, depth):
        return self.tag("echo " + (self.ternary() if self.rng.random() < 0.2 else self.filtered()))

    def n_liquid(self, depth):
        r = self.rng
        lines = []
        for _ in range(r.randint(1, 4)):
            c = r.random()
            if c < 0.3:
                lines.append(f"assign lq = {self.filtered(1)}")
            elif c < 0.6:
                lines.append(f"echo {self.filtered(1)}")
            elif c < 0.8:
                lines.append(f"if {self.cond()}\n  echo {self.primitive()}\nendif")
            else:
                lines.append(f"for q in {r.choice(['nums', 'user.tags', '(1..2)'])}\n  echo q\nendfor")
        return "{% liquid\n" + "\n".join(lines) + "\n%}"

    def n_raw(self, depth):
        return "{% raw %}{{ not.rendered }} {% if %}{% endraw %}"

    def n_comment(self, depth):
        return self.rng.choice(["{# a {{ comment }} #}", "{% comment %}x {% if %}{% endcomment %}",
                                "{% # inline comment %}"])

    def n_with(self, depth):
        r = self.rng
        keys = r.sample(["p", "who", "a", "b", "s", "n"], r.randint(1, 3))
        parts = []
        for i, k in enumerate(keys):
            v = r.choice(keys) if (r.random() < 0.4) else self.primitive()
            parts.append(f"{k}: {v}")
        body = self.block(depth + 1, 2) + "".join(self.out(k) for k in keys if r.random() < 0.7)
        return self.tag("with " + ", ".join(parts)) + body + self.tag("endwith")

    def n_macro(self, depth):
        r = self.rng
        name = r.choice(["greet", "'price'", "row", "m1"])
        self.macros.append(name)
        params = r.choice(["", "you", "you, greeting: 'Hi'", "p, on_sale: false", "a, b: n, c: user.name",
                           "s, n", "user, t: s", "products, who", "flag, m: 1"])   # parameters named like render globals
        body = self.block(depth + 1, 2) + self.out(r.choice(["you", "greeting", "p.title", "args", "kwargs", "a", "b", "c",
                                                            "args | join: '-'", "kwargs.z", "s", "n", "user.name", "who",
                                                            "products.size", "flag", "m"]))
        if self.allow_partials and r.random() < 0.25:
            body += self.n_render(self.max_depth) if r.random() < 0.6 else self.n_include(self.max_depth)
        out = self.tag(f"macro {name} {params}".rstrip()) + body + self.tag("endmacro")
        if r.random() < 0.35:   # called at once, with fewer arguments than parameters
            out += self.tag(f"call {name}" + (" " + self.primitive() if r.random() < 0.3 else ""))
        return out

    def n_call(self, depth):
        r = self.rng
        name = r.choice(self.macros) if self.macros and r.random() < 0.8 else r.choice(["greet", "undefined_macro"])
        args = []
        for _ in range(r.randint(0, 3)):
            if r.random() < 0.5:
                args.append(self.primitive())
            else:
                args.append(f"{r.choice(['greeting', 'on_sale', 'b', 'z'])}: {self.primitive()}")
        return self.tag(f"call {name} " + ", ".join(args))

    def partial_name(self) -> str:
        lay = [n for n in LAYOUT_NAMES if n in self.partials]
        if lay and self.rng.random() < 0.12:
            return self.rng.choice(lay)   # a layout rendered/included directly: its blocks render their defaults
        return self.rng.choice(PARTIAL_NAMES)

    def ensure_partial(self, name: str, depth: int) -> None:
        if name in self.partials or self.in_partial >= 2:
            return
        self.in_partial += 1
        self.partials[name] = ""  # guards recursion while generating
        body = self.block(self.max_depth - 1 if self.rng.random() < 0.6 else self.max_depth,
                          self.rng.randint(1, 3))
        stem = name.rsplit("/", 1)[-1].split(".")[0]
        body += self.out(self.rng.choice([stem, stem + ".title", "who", "item.title", "user.name", "forloop.index"]))
        if self.rng.random() < 0.08:
            body = self.rng.choice(["{% break %}", "{% continue %}", "{% if n > 1 %}{% break %}{% endif %}",
                                    "{% unless flag %}{% continue %}{% endunless %}"]) + body \
                if self.rng.random() < 0.5 else body + self.rng.choice(["{% break %}after", "{% continue %}after"])
        if self.rng.random() < 0.04:
            body += self.rng.choice(["{% if %}", "{{ user.name | nosuchfilter }}", "{% endfor %}", "{{ 1 | divided_by: 0 }}",
                                     "{% render 'missing/deep.html' %}", "{% include 'missing/deep2' %}"])
        self.partials[name] = body
        self.in_partial -= 1

    def n_include(self, depth):
        r = self.rng
        if not self.allow_partials:
            return self.n_output(depth)
        if r.random() < 0.06:   # which of two failures is reported (missing partial vs failing argument)
            tag = r.choice(["include", "render"])
            return self.tag(f"{tag} 'nope/none.html', item: {r.choice(['products[ghost]', 'user[ghost.x]', 'h[missing_key]', 'nums[user.nope]', 'ghost.x'])}"
                            + r.choice(["", f", who: {r.choice(['words[ghost]', 'user.nope.x', 'h[nothing.k]'])}"]))
        name = self.partial_name()
        if r.random() < 0.97:
            self.ensure_partial(name, depth + 1)
        tgt = "pname" if r.random() < 0.1 else f"'{name}'"
        s = f"include {tgt}"
        c = r.random()
        if c < 0.25:
            s += f" with {self.primitive()}"
        elif c < 0.4:
            s += f" with {self.primitive()} as {r.choice(['who', 'item', 'p'])}"
        elif c < 0.55:
            s += f" for {r.choice(['products', 'user.tags', 'nums'])}" + (" as item" if r.random() < 0.5 else "")
        if r.random() < 0.4:
            s += ", " + ", ".join(f"{r.choice(['who', 'a', 'item', 'products', 'user', 'nums', 'n', 's'])}: {self.primitive()}"
                                  for _ in range(r.randint(1, 2)))
        return self.tag(s)

    def n_render(self, depth):
        r = self.rng
        if not self.allow_partials:
            return self.n_output(depth)
        name = self.partial_name()
        if r.random() < 0.97:
            self.ensure_partial(name, depth + 1)
        s = f"render '{name}'"
        c = r.random()
        if c < 0.25:
            s += f" with {self.primitive()}"
        elif c < 0.4:
            s += f" with {self.primitive()} as {r.choice(['who', 'item', 'p'])}"
        elif c < 0.6:
            s += f" for {r.choice(['products', 'user.tags', 'nums'])}" + (" as item" if r.random() < 0.5 else "")
        if r.random() < 0.4:
            s += ", " + ", ".join(f"{r.choice(['who', 'a', 'item', 'products', 'user', 'nums', 'n', 's'])}: {self.primitive()}"
                                  for _ in range(r.randint(1, 2)))
        return self.tag(s)

    def n_translate(self, depth):
        r = self.rng
        args = []
        if r.random() < 0.6:
            args.append(f"count: {r.choice(['n', 'm', '1', '2', 'nums.size', 'products.size'])}")
        if r.random() < 0.3:
            args.append(f"context: {r.choice([repr('greeting'), 's'])}")
        if r.random() < 0.7:
            args.append(f"who: {self.primitive()}")
        s = self.tag(("translate " + ", ".join(args)).rstrip())
        s += "Hello {{ who }} " + r.choice(["", "{{ count }} "]) + ("{{ user.name }}" if r.random() < 0.02 else "") \
            + r.choice(["", "", "{{ context }} ", "{{ n }}{{ s }} "])   # reserved names used as placeholders
        if r.random() < 0.5:
            s += self.tag("plural") + "Hellos {{ who }} x{{ count }}"
        return s + self.tag("endtranslate")

    # ------------------------------------------------------------- top level
    def layout_chain(self, depth_chain: int) -> str:
        """Create layouts[0..depth_chain-1] and return the leaf's prefix."""
        r = self.rng
        names = list(LAYOUT_NAMES[:depth_chain])
        blocks = ["head", "content", "foot"]
        # base
        base = "<html>"
        for b in blocks:
            req = " required" if (b == "content" and r.random() < 0.2) else ""
            blk = self.tag(f"block {b}{req}") + f"base-{b} " + self.block(self.max_depth - 1, 1) \
                + (self.out(r.choice(["block.super", "block.super | upcase", "block.nope"])) if r.random() < 0.15 else "") \
                + self.tag("endblock")
            if r.random() < 0.3:   # a block inside a loop: loop-iteration carry into overrides
                blk = self.tag("for bi in " + r.choice(["(1..3)", "products", "nums", "(1..m)"])) + blk + self.tag("endfor")
            elif r.random() < 0.15:
                blk = self.tag("capture bc") + blk + self.tag("endcapture") + self.out("bc")
            base += blk
        base += self.block(self.max_depth, 1) + "</html>"
        self.partials[names[0]] = base
        for i in range(1, depth_chain):
            parent = names[i - 1]
            if r.random() < 0.07:
                parent = r.choice(["layouts/nope", names[i], "p0"])  # missing parent / cycle / not a layout
            src = self.tag(f"extends '{parent}'")
            for b in r.sample(blocks, r.randint(0, 3)):
                src += self.tag(f"block {b}" + (" required" if r.random() < 0.08 else "")) + f"L{i}-{b} " + (self.out("block.super") if r.random() < 0.6 else "") \
                    + self.block(self.max_depth - 1, 1) + self.tag(f"endblock {b}" if r.random() < 0.3 else "endblock")
            self.partials[names[i]] = src
        return names[depth_chain - 1]

    def program(self) -> str:
        r = self.rng
        if self.allow_extends and r.random() < 0.2:
            parent = self.layout_chain(r.randint(1, 3))
            src = self.tag(f"extends '{parent}'")
            for b in r.sample(["head", "content", "foot", "extra"], r.randint(1, 3)):
                inner = self.block(1, 2)
                if r.random() < 0.4:
                    inner += self.tag("for oi in " + r.choice(["(1..3)", "nums", "products", "(1..m)"])) + self.out("oi") \
                        + self.tag("endfor")
                src += self.tag(f"block {b}") + inner + (self.out("block.super") if r.random() < 0.5 else "") \
                    + self.tag("endblock")
            return src
        if self.allow_extends and self.allow_partials and r.random() < 0.06:
            # several layouts rendered as partials by ONE render: siblings that extend the same
            # parent, a child and then its base (block stacks must not survive from one to the next)
            depth_chain = r.randint(2, 3)
            leaf = self.layout_chain(depth_chain)
            parent = LAYOUT_NAMES[depth_chain - 2]
            sib = "layouts/sibling"
            ssrc = self.tag(f"extends '{parent}'")
            for b in r.sample(["head", "content", "foot"], r.randint(1, 3)):
                ssrc += self.tag(f"block {b}") + f"S-{b} " + (self.out("block.super") if r.random() < 0.5 else "") \
                    + self.tag("endblock")
            self.partials[sib] = ssrc
            order = [r.choice([leaf, sib, LAYOUT_NAMES[0], parent]) for _ in range(r.randint(2, 4))]
            how = r.choice(["include", "include", "render"])
            return "".join(self.tag(f"{how} '{n}'") + "|" for n in order) + self.block(1, 1)
        return self.block(0, r.randint(2, 7))


def generate(rng: random.Random, *, shopify: bool = False, max_depth: int = 3):
    """Return (main source, partials, data)."""
    g = ProgGen(rng, shopify=shopify, max_depth=max_depth)
    src = g.program()
    return src, dict(g.partials), make_data(rng)
