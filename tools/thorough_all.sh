#!/bin/bash
# run the thorough tier of every check once (default seed), print the summary lines
for id in C03 C09 C14; do
  out=$(./check $id --tier thorough --no-evidence 2>&1); rc=$?
  echo "thorough $id rc=$rc $(echo "$out" | grep 'runs=' | sed 's/.*runs=/runs=/' | cut -c1-140)"
  echo "$out" | grep -E "^VIOLATION|HARNESS|DISCARDED|KNOWN" | cut -c1-160 | head -8
done
