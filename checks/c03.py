"""C03 — async rendering is observationally identical to sync rendering.

World A: k operations run as concurrent asyncio tasks on SimLoop (twice, under
two scheduler policies).  World B_i: the sync twin of operation i, alone, on a
world built afresh from the same plan.  Outcomes must agree (output text, or
error class + template name + token start; loaded-template identity; analysis).
See DESIGN.md section 6.3.
"""

from __future__ import annotations

import asyncio
import json
import os
import random

from gen import programs as gprog
from sim import common
from sim import sched as simsched
from sim import simfs
from sim import worlds
from sim.common import Inconclusive
from sim.common import canon_exc
from sim.drops import DropCtl
from sim.drops import wrap_data
from sim.runner import digest

PROP = "C03"

FAIL_KEYS = ("user.name", "user.age", "user.tags", "user.address", "user.address.city",
             "products.0", "products[0].title", "products[0].price", "h.a", "h.list",
             "products[0].meta", "user.first", "products[1].meta.k")

# designed partial chains for the analysis twins (scopes of render / include / extends nest)
AN_PARTIALS = {
    "an/r1": "{% assign below1 = 1 %}{{ x }}{{ root_var }}{% include 'an/i1' %}{{ made_in_i1 }}",
    "an/i1": "{% assign made_in_i1 = 2 %}{{ x }}{{ below1 }}{{ root_var }}{% render 'an/r2', y: below1 %}{{ user.name | upcase }}",
    "an/r2": "{{ y }}{{ made_in_i1 }}{% for q in y %}{{ q.a | default: q }}{% endfor %}{% capture cap2 %}c{% endcapture %}",
    "an/base": "<{% block b %}base{% endblock %}{{ setb }}{% include 'an/i1' %}>",
    "an/child": "{% extends 'an/base' %}{% block b %}{{ inb }}{% assign setb = 1 %}{% render 'an/r1', x: inb %}{{ block.super }}{% endblock %}",
}
AN_MAINS = (
    "{% assign root_var = 1 %}{% render 'an/r1', x: root_var %}{{ made_in_i1 }}{{ below1 }}{% include 'an/i1' %}{{ cap2 }}",
    "{% include 'an/r1' with user as x %}{% for p in products %}{% render 'an/r2', y: p.tags %}{% endfor %}{{ y }}{{ p }}",
    "{% extends 'an/child' %}{% block b %}{{ block.super }}{{ leaf }}{% include 'an/r1' %}{% endblock %}",
    "{% macro m a, b: 1 %}{{ a }}{{ b }}{{ outer }}{% render 'an/r2', y: a %}{% endmacro %}{% call m user.name %}{% with w1: n %}{% include 'an/i1' %}{{ w1 }}{% endwith %}{{ w1 }}",
)

# data-dependent statements of every kind: under contention (k tasks, one shared parsed
# Template, different data per task) any value stashed on a shared node shows in the output
CONC_SNIPPETS = (
    "{{ h[key] }}", "{{ user[key] }}", "{{ products[idx].title }}", "{{ nested[n][idx] }}", "{{ user.tags[n] }}",
    "{{ products[user.tags.size].title }}", "{{ s | append: user.name | prepend: products[0].title }}",
    "{{ user.name | replace: user.name, t | upcase }}", "{{ n | plus: user.age | times: m }}",
    "{{ user.name if user.active else user.address.city | upcase || append: s }}",
    "{{ 'a ${user.name} b ${products[0].title | downcase}' }}", "{{ products | map: 'title' | join: user.name }}",
    "{{ products | where: 'active' | map: i => i.title | join: ',' }}", "{{ nums | sum | plus: user.age }}",
    "{% for p in products limit: m offset: n %}{{ p.title }}{{ forloop.index }}{% else %}none{{ user.name }}{% endfor %}",
    "{% for t in user.tags %}{% for p in products %}{{ forloop.parentloop.index }}{{ t }}{{ p.price }}{% endfor %}{% endfor %}",
    "{% if user.active and user.age > n %}A{{ user.name }}{% elsif user.tags contains 'vip' %}B{% else %}C{{ user.address.city }}{% endif %}",
    "{% unless user.active %}U{{ user.name }}{% else %}V{% endunless %}",
    "{% case user.name %}{% when s, t %}S{% when 'alice' or 'bob' %}AB{{ user.age }}{% else %}E{{ user.name }}{% endcase %}",
    "{% case user.name %}{% when user.address.city %}C{% when products[0].title, user.name %}N{{ user.age }}{% when h.b or user.name %}H{{ user.name }}{% else %}E{% endcase %}",
    "{% case user.tags.size %}{% when nums[1] %}a{% when user.tags.size %}b{{ user.age }}{% when products.size %}c{% endcase %}",
    "{% for p in products %}{% case p.title %}{% when user.name %}u{% when p.title %}[{{ p.price }}]{% endcase %}{% endfor %}",
    "{% if user.name == s %}1{% elsif user.name == user.name %}2{{ user.age }}{% elsif user.age > n %}3{% endif %}",
    "{% assign x = user.name | append: s %}{% capture c %}{{ x }}{{ user.age }}{% endcapture %}{{ c }}",
    "{% cycle user.name, s, t %}{% cycle user.name, s, t %}", "{% increment c1 %}{% decrement c1 %}{{ c1 }}",
    "{% include 'gvp' %}", "{% include 'gvp' with user as who %}", "{% render 'gvp', user: user, gv: s %}",
    "{% render 'dir/gvq.html' for user.tags as user %}", "{% macro mm a, b: s %}{{ a }}{{ b }}{{ user.name }}{% endmacro %}{% call mm user.age, b: t %}",
    "{% with who: user.name, z: who %}{{ who }}{{ z }}{% endwith %}",
    "{% translate who: user.name, count: n %}Hi {{ who }}{% plural %}His {{ who }} {{ count }}{% endtranslate %}",
    "{% liquid\nassign lq = user.name | upcase\necho lq\nfor q in user.tags\n  echo q\nendfor\n%}",
    "{% echo user.address.city | default: s %}", "{{ (1..n) | join: user.name }}", "{{ user.tags | concat: nums | join: '-' }}",
    "{{ user.name | t }}", "{{ user.age | money }}", "{{ products.first.title }}{{ products.last.price }}{{ user.tags.size }}",
)

_CTS = None


def cts_cases() -> list[dict]:
    global _CTS
    if _CTS is None:
        p = os.path.join(common.repo_root(), "tests", "liquid2-compliance-test-suite", "cts.json")
        try:
            with open(p, encoding="utf8") as f:
                _CTS = json.load(f)["tests"]
        except OSError:
            _CTS = []
    return _CTS


class Violation(Exception):
    def __init__(self, kind: str, **detail) -> None:
        super().__init__(kind)
        self.kind = kind
        self.detail = detail


# ------------------------------------------------------------------ canon
def canon_analysis(a) -> dict:
    def vm(d):
        return {k: sorted([str(v), v.span.template_name, v.span.start, v.span.end] for v in vs)
                for k, vs in d.items()}

    def sm(d):
        return {k: sorted([s.template_name, s.start, s.end] for s in spans) for k, spans in d.items()}

    return {"variables": vm(a.variables), "globals": vm(a.globals), "locals": vm(a.locals),
            "filters": sm(a.filters), "tags": sm(a.tags)}


HELPERS = ("variables", "variable_paths", "variable_segments", "global_variables",
           "global_variable_paths", "global_variable_segments", "filter_names", "tag_names")


# ------------------------------------------------------------------ world
class World:
    def __init__(self, plan: dict) -> None:
        cfg = plan["cfg"]
        from sim import clock as simclock

        self.plan = plan
        self.store = worlds.make_store(cfg["loader"], plan["partials"], simclock.CLOCK.now)
        worlds.activate(self.store)
        self.loader = worlds.make_loader(cfg["loader"], self.store, capacity=cfg.get("capacity", 300),
                                         nskey=cfg.get("nskey", ""))
        self.env = worlds.make_env(cfg["env"], self.loader)
        self.templates: dict[int, tuple] = {}

    def template(self, pi: int, mode: str):
        """Parsed main program ``pi`` (shared by the ops that use it)."""
        if pi not in self.templates:
            p = self.plan["programs"][pi]
            try:
                t = self.env.from_string(p["src"], name=p.get("name", ""), globals=p.get("globals"))
                self.templates[pi] = ("ok", t)
            except Inconclusive:
                raise
            except BaseException as exc:  # noqa: BLE001
                self.templates[pi] = canon_exc(exc)
        return self.templates[pi]


def op_data(op: dict, tag: str):
    ctl = DropCtl(tag, fail_keys=op.get("fail_keys") or (), exc=op.get("fail_exc", "InjectedFault"))
    d = wrap_data(op["data"], op.get("drops") or {"mode": "all"}, ctl)
    if op.get("catalog"):
        d["translations"] = worlds.Catalog()
    return d, ctl


def _split(d: dict):
    """Positional mapping + keyword arguments; the keyword value wins over a positional decoy."""
    keys = sorted(d)
    pos = {k: d[k] for k in keys[::2]}
    kws = {k: d[k] for k in keys[1::2]}
    if kws:
        pos[next(iter(kws))] = "DECOY"
    return pos, kws


def _ctx_args(t, op, d):
    """An application driving render_with_context(_async) itself: own context, own buffer,
    extra namespace arguments, partial / block_scope flags."""
    import io

    from liquid2 import RenderContext

    pos, kws = _split(d)
    c = op.get("ctx") or {}
    ns_names = [k for k in sorted(kws) if c.get("ns")][:2]
    ns = {k: kws.pop(k) for k in ns_names}
    ctx = RenderContext(t, global_data=t.make_globals({**pos, **kws}))
    return ctx, io.StringIO(), ns, {"partial": bool(c.get("partial")), "block_scope": bool(c.get("block_scope"))}


def _kw(plan, op):
    kw = {}
    if op.get("ns_kw"):
        kw["tenant"] = op["ns_kw"]
    return kw


def sync_op(w: World, op: dict) -> tuple:
    k = op["kind"]
    try:
        if k in ("render", "analyze", "helpers"):
            if "name" in op:
                t = w.env.get_template(op["name"], globals=op.get("globals"), **_kw(w.plan, op))
            else:
                st = w.template(op["prog"], "s")
                if st[0] != "ok":
                    return st
                t = st[1]
            if k == "render":
                d, ctl = op_data(op, "d")
                ident = (t.name, str(t.path), t.full_name())
                call = op.get("call", "kw")
                if call == "pos":
                    return ("ok", common.norm(t.render(d)), ident)
                if call == "poskw":
                    pos, kws = _split(d)
                    return ("ok", common.norm(t.render(pos, **kws)), ident)
                if call == "ctx":
                    ctx, buf, ns, flags = _ctx_args(t, op, d)
                    n = t.render_with_context(ctx, buf, ns, **flags)
                    return ("ok", common.norm(buf.getvalue()), ident, n)
                return ("ok", common.norm(t.render(**d)), ident)
            if k == "analyze":
                return ("ok", canon_analysis(t.analyze(include_partials=op.get("partials", True))))
            out = {}
            for h in HELPERS:
                out[h] = sorted(repr(x) for x in getattr(t, h)(include_partials=op.get("partials", True)))
            return ("ok", out)
        raise ValueError(k)
    except Inconclusive:
        raise
    except BaseException as exc:  # noqa: BLE001
        if isinstance(exc, (SystemExit, KeyboardInterrupt)):
            raise
        return canon_exc(exc)


async def async_op(w: World, op: dict) -> tuple:
    k = op["kind"]
    try:
        if "name" in op:
            t = await w.env.get_template_async(op["name"], globals=op.get("globals"), **_kw(w.plan, op))
        else:
            st = w.template(op["prog"], "a")
            if st[0] != "ok":
                return st
            t = st[1]
        if k == "render":
            d, ctl = op_data(op, "d")
            ident = (t.name, str(t.path), t.full_name())
            call = op.get("call", "kw")
            if call == "pos":
                return ("ok", common.norm(await t.render_async(d)), ident)
            if call == "poskw":
                pos, kws = _split(d)
                return ("ok", common.norm(await t.render_async(pos, **kws)), ident)
            if call == "ctx":
                ctx, buf, ns, flags = _ctx_args(t, op, d)
                n = await t.render_with_context_async(ctx, buf, ns, **flags)
                return ("ok", common.norm(buf.getvalue()), ident, n)
            return ("ok", common.norm(await t.render_async(**d)), ident)
        if k == "analyze":
            return ("ok", canon_analysis(await t.analyze_async(include_partials=op.get("partials", True))))
        out = {}
        for h in HELPERS:
            out[h] = sorted(repr(x) for x in await getattr(t, h + "_async")(
                include_partials=op.get("partials", True)))
        return ("ok", out)
    except Inconclusive:
        raise
    except asyncio.CancelledError:
        raise
    except BaseException as exc:  # noqa: BLE001
        if isinstance(exc, (SystemExit, KeyboardInterrupt)):
            raise
        return canon_exc(exc)


def run_async_world(plan: dict, segs: common.Segments, sid: str) -> list[tuple]:
    w = World(plan)

    async def batch():
        loop = asyncio.get_running_loop()
        tasks = [loop.create_task(async_op(w, op), name=f"T{i}") for i, op in enumerate(plan["ops"])]
        res = await asyncio.gather(*tasks, return_exceptions=True)
        out = []
        for r in res:
            if isinstance(r, BaseException):
                out.append(canon_exc(r))
            else:
                out.append(r)
        return out

    try:
        return segs.run(batch(), sid=sid)
    except Inconclusive:
        raise
    except BaseException as exc:  # noqa: BLE001
        if isinstance(exc, (SystemExit, KeyboardInterrupt)):
            raise
        c = canon_exc(exc)
        raise Violation("async_batch_failed", outcome=c) from None


def execute(plan: dict) -> dict:
    common.setup_child()
    cfg = plan["cfg"]
    policies = cfg["policies"]
    segs = common.Segments(plan["seed"], policies[0], plan.get("decisions"))
    status = "ok"
    violation = None
    counters: dict[str, int] = {}

    def count(k, n=1):
        counters[k] = counters.get(k, 0) + n

    nontrivial = False
    trace: list = []
    try:
        # reference: each op's sync twin alone on a world built afresh
        ref = []
        for op in plan["ops"]:
            ref.append(sync_op(World(plan), op))
        trace.append(ref)
        for i, r in enumerate(ref):
            count("op:" + plan["ops"][i]["kind"])
            if r[0] == "ok":
                count("sync_ok")
            else:
                count("err:" + r[1])
        for pi, pol in enumerate(policies):
            segs.policy = pol
            got = run_async_world(plan, segs, sid=f"p{pi}")
            trace.append([pol, got])
            for i, (a, b) in enumerate(zip(got, ref)):
                if a != b:
                    raise Violation("twin_mismatch", op=i, policy=pol, opkind=plan["ops"][i]["kind"],
                                    sync=_short(b), async_=_short(a))
            count("async_batches")
        # small cases: sweep EVERY interleaving (depth-first over decision vectors)
        first = segs.raw.get("p0", [])
        if plan.get("decisions") is None and len(plan["ops"]) >= 2 and 2 <= len(first) <= 8:
            cap = 60
            prefix: list[int] = []
            n_sched = 0
            complete = False
            while n_sched < cap:
                esegs = common.Segments(plan["seed"], "fifo", {"e": prefix})
                got = run_async_world(plan, esegs, sid="e")
                n_sched += 1
                for i, (a, b) in enumerate(zip(got, ref)):
                    if a != b:
                        segs.decisions["p0"] = esegs.decisions["e"]
                        raise Violation("twin_mismatch", op=i, policy="enumerated", opkind=plan["ops"][i]["kind"],
                                        sync=_short(b), async_=_short(a), schedule=esegs.decisions["e"])
                dec = esegs.raw["e"]
                j = len(dec) - 1
                while j >= 0 and dec[j][0] + 1 >= dec[j][1]:
                    j -= 1
                if j < 0:
                    complete = True
                    break
                prefix = [d[0] for d in dec[:j]] + [dec[j][0] + 1]
            count("schedules_enumerated", n_sched)
            if complete:
                count("interleavings_exhausted_small_cases")
        if segs.parks + segs.jobs > 0:
            for r, op in zip(ref, plan["ops"]):
                if r[0] == "ok" or r[1] not in ("LiquidSyntaxError",):
                    nontrivial = True
    except Violation as v:
        status = "violation"
        violation = {"property": PROP, "kind": v.kind, **json.loads(json.dumps(v.detail, default=str))}
        violation["sig"] = f"C03:{v.kind}"
    except Inconclusive as exc:
        status = "inconclusive"
        count("inconclusive:" + str(exc))
    counters["decisions"] = segs.total_decisions
    counters["overlap_decisions"] = segs.overlap
    counters["parks"] = segs.parks
    counters["exec_jobs"] = segs.jobs
    counters["cfg:loader:" + cfg["loader"]] = 1
    counters["cfg:k=" + str(len(plan["ops"]))] = 1
    counters["prog:" + plan.get("source", "gen")] = 1
    for op in plan["ops"]:
        if op.get("fail_keys"):
            counters["F2_marked_keys"] = counters.get("F2_marked_keys", 0) + 1
    counters["F2_data_fault_fired"] = counters.get("err:InjectedFault", 0)
    res = {
        "status": status,
        "trace": digest(trace),
        "counters": counters,
        "sim_seconds": 0.0,
        "digest": digest([plan["cfg"], plan["programs"], plan["partials"], plan["ops"], segs.decisions]),
        "nontrivial": nontrivial and status == "ok",
        "decisions": segs.decisions,
    }
    if violation:
        res["violation"] = violation
    return res


def _short(x, n=1200):
    s = json.dumps(x, default=str)
    return s if len(s) <= n else s[:n] + "..."


# -------------------------------------------------------------- generator
def gen_plan(seed: int, tier: str) -> dict:
    rng = random.Random(f"c03:{seed}")
    shopify = rng.random() < 0.2
    envc = {
        "shopify": shopify,
        "auto_escape": rng.random() < 0.3,
        "undefined": rng.choice([None, None, "strict", "strict", "falsy"]),
        "trim": rng.choice([None, None, None, "-", "~"]),
        "suppress_blank_control_flow_blocks": rng.choice([None, False]),
        "shorthand_indexes": rng.choice([None, None, True]),
        "loop_iteration_limit": rng.choice([None, None, None, 5, 8, 40]),
        "output_stream_limit": rng.choice([None, None, None, None, 60, 400]),
        "local_namespace_limit": rng.choice([None, None, None, None, 200]),
        "context_depth_limit": rng.choice([None, None, None, None, None, None, 4]),
        "globals": rng.choice([None, None, {"gv": "E", "tenant": "t1"}]),
        "translation_filters": rng.random() < 0.3,
    }
    loader = rng.choice(worlds.LOADER_KINDS)
    cfg = {
        "env": envc,
        "loader": loader,
        "capacity": rng.choice([1, 2, 300]),
        "nskey": rng.choice(["", "", "tenant"]),
        "policies": rng.sample(list(simsched.POLICIES), 2),
    }
    partials: dict[str, str] = {}
    progs = []
    source = "gen"
    cases = cts_cases()
    r = rng.random()
    n_prog = rng.choice([1, 1, 2])
    designed = rng.random() < 0.1
    conc = (not designed) and rng.random() < 0.2
    if conc:
        n_prog = 1
    for _ in range(n_prog):
        if designed:
            source = "designed-analysis"
            partials.update(AN_PARTIALS)
            progs.append({"src": rng.choice(AN_MAINS), "data": gprog.make_data(rng)})
        elif conc:
            source = "designed-contention"
            progs.append({"src": "|".join(rng.sample(list(CONC_SNIPPETS), rng.randint(2, 7))),
                          "data": gprog.make_data(rng)})
        elif cases and r < 0.3:
            source = "cts"
            case = rng.choice(cases)
            partials.update(case.get("templates") or {})
            progs.append({"src": case["template"], "data": case.get("data") or {}, "cts": case["name"]})
        elif cases and r < 0.4:
            source = "cts+gen"
            case = rng.choice(cases)
            partials.update(case.get("templates") or {})
            src, parts, data = gprog.generate(rng, shopify=shopify, max_depth=2)
            partials.update(parts)
            merged = dict(data)
            merged.update(case.get("data") or {})
            progs.append({"src": case["template"] + src, "data": merged})
        else:
            src, parts, data = gprog.generate(rng, shopify=shopify, max_depth=rng.choice([2, 3, 3]))
            partials.update(parts)
            progs.append({"src": src, "data": data})
    # sentinel partials whose output shows the caller's globals and data (contention probes)
    partials.setdefault("gvp", "[gvp {{ gv }}|{{ user.name }}|{{ tenant }}|{{ matter_ns }}]")
    partials.setdefault("dir/gvq.html", "[gvq {{ gv }}|{{ user.name }}{% include 'gvp' %}]")
    if rng.random() < 0.3:
        for p in progs:
            p["globals"] = {"gv": "G", "user": {"name": "from-globals", "tags": ["g"]}}
    if rng.random() < 0.3:
        for p in progs:
            p["name"] = rng.choice(["main", "dir/main.html"])
    k = rng.choice([2, 3, 3, 4]) if conc else rng.choice([1, 2, 2, 3, 4])
    ops = []
    names = list(partials)
    contention = rng.random() < 0.2  # several tasks load the SAME name with different globals
    cname = rng.choice(["gvp", "dir/gvq.html"])
    pkg_names = ["pk_one", "pk_child", "snippets/pk_card", "snippets/pk_line.html", "pk_bad", "pk_none",
                 "pk_crlf", "snippets/pk_crlf2", "pk_crlf", "snippets/pk_crlf2"]   # CRLF / CR line endings
    for _ in range(k):
        pi = rng.randrange(len(progs))
        kind = rng.choices(["render", "analyze", "helpers"], [2, 5, 3] if designed else ([1, 0, 0] if conc else [7, 2, 1]))[0]
        op = {"kind": kind, "prog": pi}
        if contention and loader != "pkg":
            op = {"kind": "render", "name": cname, "globals": {"gv": f"G{len(ops)}"}}
            if ops and rng.random() < 0.3:
                op.pop("globals")    # a caller without globals of its own after one with
            kind = "render"
        if "name" in op:
            pass
        elif loader == "pkg" and rng.random() < 0.7:
            op["name"] = rng.choice(pkg_names)
            op.pop("prog")
        elif names and rng.random() < 0.3:
            op["name"] = rng.choice(names + ["missing/none.html"]) if rng.random() < 0.95 else "../escape"
            op.pop("prog")
            if rng.random() < 0.4:
                op["globals"] = {"gv": rng.choice(["G1", "G2"])}
        base = progs[pi]["data"]
        if conc or (rng.random() < 0.5 and source == "gen"):
            data = gprog.make_data(rng)  # each concurrent render gets its own data
        else:
            data = base
        if cfg["nskey"] or loader in ("ns", "cns", "cnsf", "nschoice"):
            if rng.random() < 0.5:
                data = {**data, "tenant": rng.choice(["t1", "t2"])}
            if "name" in op and rng.random() < 0.5:
                op["ns_kw"] = rng.choice(["t1", "t2"])
        op["data"] = data
        m = rng.random() * (0.8 if conc else 1.0)
        if m < 0.55:
            op["drops"] = {"mode": "all", "seq": rng.random() < 0.5}
        elif m < 0.8:
            paths = [p for p in ("user", "user.address", "h", "products[0]", "products[0].meta",
                                 "products", "user.tags", "nums") if rng.random() < 0.5]
            op["drops"] = {"mode": "paths", "paths": paths, "seq": rng.random() < 0.5,
                           "sync": [p for p in paths if rng.random() < 0.25]}
        else:
            op["drops"] = {"mode": "none"}
        if rng.random() < 0.15:
            cands = _data_keys(data) or list(FAIL_KEYS)
            op["fail_keys"] = rng.sample(cands, min(len(cands), rng.randint(1, 2)))
            op["fail_exc"] = rng.choice(["InjectedFault", "InjectedFault", "KeyError", "IndexError", "TypeError",
                                         "LiquidTypeError", "UndefinedError"])
        if kind != "render":
            op["partials"] = rng.random() < 0.8
        op["catalog"] = rng.random() < 0.5
        ops.append(op)
    # calling conventions (own random stream: earlier plans keep their shape)
    rng2 = random.Random(f"c03call:{seed}")
    for op in ops:
        if op["kind"] == "render" and rng2.random() < 0.25:
            op["call"] = rng2.choice(["pos", "poskw", "ctx", "ctx"])
            if op["call"] == "ctx":
                op["ctx"] = {"ns": rng2.random() < 0.5, "partial": rng2.random() < 0.4,
                             "block_scope": rng2.random() < 0.3}
    for p in progs:
        p.pop("data", None)
    return {"property": PROP, "seed": seed, "cfg": cfg, "programs": progs, "partials": partials,
            "ops": ops, "source": source}


def _data_keys(data, limit: int = 40) -> list[str]:
    """Access labels ('parent.key') of the dict nodes of a data tree."""
    out: list[str] = []

    def walk(v, path, depth):
        if depth > 3 or len(out) >= limit:
            return
        if isinstance(v, dict):
            for k, x in v.items():
                if path:
                    out.append(f"{path}.{k}")
                walk(x, f"{path}.{k}" if path else str(k), depth + 1)
        elif isinstance(v, list):
            for i, x in enumerate(v[:3]):
                walk(x, f"{path}[{i}]", depth + 1)

    walk(data, "", 0)
    return out


class Engine:
    id = PROP
    module = "checks.c03"

    def run_seed(self, job: dict) -> dict:
        plan = gen_plan(job["seed"], job["tier"])
        res = execute(plan)
        if res["status"] == "violation":
            plan["decisions"] = res.pop("decisions")
            res["plan"] = plan
        else:
            res.pop("decisions", None)
        if job.get("want_sample"):
            res["sample"] = {"seed": job["seed"], "cfg": plan["cfg"],
                             "programs": [p["src"][:400] for p in plan["programs"]],
                             "partials": {k: v[:120] for k, v in list(plan["partials"].items())[:4]},
                             "ops": [{k: v for k, v in op.items() if k != "data"} for op in plan["ops"]]}
        return res

    def replay(self, plan: dict) -> dict:
        return execute(plan)

    def minimise(self, v: dict, in_child) -> dict:
        from sim.minimise import minimise_ops
        return minimise_ops(self, v, in_child)


ENGINE = Engine()
