"""C09 — a render depends only on its inputs, never on earlier or concurrent renders.

A seeded history of parse / get_template / render / render_async / analyze /
concurrent batches / clock steps / configure steps / fault sweeps runs on SHARED
Environment, Template and loader objects in a process-pristine child.  Oracles:

1. fresh-world differential: every step is repeated on objects built from
   scratch (same config-so-far, same storage, same data, same clock, same fault);
2. closed-form expectations for a stateful program set (independent of any
   library state, so pollution shared by old and new objects is caught too);
3. reference drift: the fresh-world result for an identical call is memoised the
   first time and must never change later in the history;
4. environment isolation: probe outcomes of every *other* environment (and of
   DEFAULT_ENVIRONMENT) recorded before a configure step must be reproduced after it;
5. bounded recovery: after a fault the very next call must equal its fresh twin.

See DESIGN.md section 6.9.
"""

from __future__ import annotations

import asyncio
import datetime as _real_dt
import json
import random

from gen import programs as gprog
from sim import clock as simclock
from sim import common
from sim import sched as simsched
from sim import worlds
from sim.common import Inconclusive
from sim.common import canon_exc
from sim.drops import DropCtl
from sim.drops import wrap_data
from sim.runner import digest

PROP = "C09"

LOADERS = ("dict", "dictp", "cdict", "cdictp", "fs", "cfs", "choice", "cchoice", "cns")

BASE_PARTIALS = {
    "base": "<{% block a %}A{% endblock %}|{% block b %}B{% endblock %}>",
    "mid": "{% extends 'base' %}{% block a %}m{{ block.super }}{% endblock %}",
    "part/count.html": "{% increment a %}{% cycle 'x','y' %}",
    "part/iso": "{% increment a %}{{ a }}",
    "part/now": "{{ 'now' | date: '%s' }}/{{ now | date: '%s' }}/{{ today | date: '%Y-%m-%d' }}/{{ 'today' | date: '%Y-%m-%d' }};",
    "part/nowbase": "[{% block t %}{{ now | date: '%s' }}{% endblock %}]",
    "part/blk": "<{% block z %}Z{% endblock %}>",
    "part/gv": "[{{ gv }}|{{ shared.n }}|{{ extra }}]",
    # another spelling: a different template for a dict / namespace store, the same file for a file system
    "./part/gv": "[dot {{ gv }}|{{ shared.n }}]",
}


def _fmt_dt(ts: float, fmt: str) -> str:
    return _real_dt.datetime.fromtimestamp(ts).strftime(fmt)


def _babel(ts: float, fmt: str | None, d: dict) -> str:
    """What Babel prints for the simulated instant, computed from the REAL datetime;
    locale / timezone / default format come from the render data like the filter does."""
    import pytz
    from babel import dates

    dt = _real_dt.datetime.fromtimestamp(ts, _real_dt.timezone.utc)
    f = fmt if fmt is not None else d.get("datetime_format", "medium")
    return dates.format_datetime(dt, format=f, locale=d.get("locale", "en_US"),
                                 tzinfo=pytz.timezone(d.get("timezone", "UTC")))


# name -> (source, expected(now) -> str)   closed forms, independent of library state
STATEFUL = {
    "counters": ("{% increment a %}{% increment a %}{% decrement b %}{{ a }}{{ b }}", lambda now, d: "01-12-1"),
    "cycles": ("{% cycle 'a','b','c' %}{% cycle 'a','b','c' %}{% cycle g: 1,2 %}{% cycle g: 1,2 %}{% cycle g: 1,2 %}",
               lambda now, d: "ab121"),
    "offset": ("{% for i in nums limit: 2 %}{{ i }}{% endfor %}|{% for i in nums offset: continue %}{{ i }}{% endfor %}",
               lambda now, d: "12|34"),
    "rbw": ("[{{ x }}][{{ cap }}]{% assign x = 'X' %}{% capture cap %}C{% endcapture %}[{{ x }}][{{ cap }}]",
            lambda now, d: "[][][X][C]"),
    "macro": ("{% call m 1 %}|{% macro m a %}M{{ a }}{% endmacro %}{% call m 2 %}", lambda now, d: "|M2"),
    "inherit": ("{% extends 'mid' %}{% block b %}c{{ block.super }}{% endblock %}", lambda now, d: "<mA|cB>"),
    "incpart": ("{% include 'part/count.html' %}{% include 'part/count.html' %}{% increment a %}", lambda now, d: "0x1y2"),
    "renpart": ("{% render 'part/iso' %}{% render 'part/iso' %}{% increment a %}", lambda now, d: "01010"),
    "loopvars": ("{% for i in (1..2) %}{{ forloop.index }}{% endfor %}{{ forloop.index }}{{ i }}", lambda now, d: "12"),
    "with": ("{% with a: 1 %}{{ a }}{% endwith %}[{{ a }}]", lambda now, d: "1[]"),
    "time": ("{{ now | date: '%Y-%m-%d %H:%M:%S' }}|{{ today | date: '%Y-%m-%d' }}|{{ 'now' | date: '%s' }}"
             "|{{ 'today' | date: '%H:%M' }}|{{ 'now' | datetime }}|{{ 'now' | datetime: format: 'short' }}",
             lambda now, d: "|".join([_fmt_dt(now, "%Y-%m-%d %H:%M:%S"), _fmt_dt(now, "%Y-%m-%d"), str(int(now)),
                                   _fmt_dt(now, "%H:%M"), _babel(now, None, d), _babel(now, "short", d)])),
    "gvprobe": ("{{ gv }}/{{ shared.n }}/{{ shared.list | join: ',' }}/{{ extra }}/{{ 'x' | upcase }}{% for i in (1..4) %}{{ i }}{% endfor %}",
                lambda now, d: "////X1234"),
    "nested": ("{% assign k = 'a' %}{{ h[k] }}{{ h['b'] }}{% for i in (1..2) %}{{ nested[i][0] }}{% endfor %}", lambda now, d: "1two3"),
    "condmacro": ("{% if flag %}{% macro m a %}M{{ a }}{% endmacro %}{% endif %}{% call m 1 %}|"
                  "{% if flag %}{% assign v = 'set' %}{% endif %}{{ v }}|{% unless flag %}{% increment z %}{% endunless %}{{ z }}",
                  lambda now, d: ("M1|set|" if d["flag"] else "||01")),
    "datefmt": ("{{ '2024-01-15 10:30' | date: '%Y/%m/%d %H:%M' }}|{{ 86400 | date: '%Y-%m-%d' }}|{{ n | plus: m }}",
                lambda now, d: "2024/01/15 10:30|1970-01-02|" + str(d["n"] + d["m"])),
    "sortdata": ("{{ unsorted | sort | join: ',' }}|{{ unsorted | join: ',' }}|{{ unsorted | reverse | first }}"
                 "|{{ unsorted | sort_natural | last }}{{ unsorted | sort_numeric | first }}|{{ unsorted | first }}"
                 "{% assign u2 = unsorted | concat: unsorted | uniq %}{{ u2 | size }}{{ unsorted | size }}",
                 lambda now, d: "1,2,3|3,1,2|2|31|333"),
    "nowparts": ("{% render 'part/now' %}{% include 'part/now' %}{% capture c %}{{ now | date: '%s' }}{% endcapture %}{{ c }}"
                 "{% for i in (1..2) %}{{ 'now' | date: '%s' }}{% endfor %}{% with t: now %}{{ t | date: '%s' }}{% endwith %}",
                 lambda now, d: (f"{int(now)}/{int(now)}/{_fmt_dt(now, '%Y-%m-%d')}/{_fmt_dt(now, '%Y-%m-%d')};" * 2)
                 + str(int(now)) * 4),
    "nowblock": ("{% extends 'part/nowbase' %}{% block t %}{{ block.super }}+{{ 'now' | date: '%s' }}{% endblock %}",
                 lambda now, d: f"[{int(now)}+{int(now)}]"),
    "macrorender": ("{% macro m a %}{% render 'part/iso' %}{{ a }}{% endmacro %}{% call m 7 %}|"
                    "{% render 'part/blk' %}|{% include 'part/blk' %}|{% for i in (1..2) %}{% call m i %}{% endfor %}",
                    lambda now, d: "077|<Z>|<Z>|011022"),
    "translate": ("{{ 'hello' | t }}|{{ 'one' | ngettext: 'many', 2 }}|{% translate %}Hello{% endtranslate %}|{{ 'hello' | gettext }}",
                  lambda now, d: (f"{d['_lang']}(hello)|{d['_lang']}N(many)|{d['_lang']}(Hello)|{d['_lang']}(hello)"
                                  if d.get("_lang") else "hello|many|Hello|hello")),
    "escprobe": ("{{ \"Tom & Jerry's\" | strip_html }}|{{ s2 | strip_html }}|{{ s2 }}|{{ 'a<b' | escape_once }}|{{ s2 | escape_once }}"
                 "|{{ s2 | strip_html | upcase }}|{{ \"Tom & Jerry's\" | strip_newlines }}|{{ s2 | strip_newlines }}",
                 lambda now, d: ("Tom & Jerry's|Tom &amp; Jerry&#39;s|Tom &amp; Jerry&#39;s|a&lt;b|Tom &amp; Jerry&#39;s|"
                                 "TOM &amp; JERRY&#39;S|Tom & Jerry's|Tom &amp; Jerry&#39;s") if d.get("_auto_escape") else
                                ("Tom & Jerry's|Tom & Jerry's|Tom & Jerry's|a&lt;b|Tom &amp; Jerry&#x27;s|TOM & JERRY'S|"
                                 "Tom & Jerry's|Tom & Jerry's")),
    "moneytie": ("{{ 0.125 | money }}|{{ 2.345 | currency }}|{{ 2.5 | round }}|{{ 3.5 | round }}|{{ 0.125 | money }}"
                 "|{{ 1.005 | round: 2 }}|{{ 2.675 | money }}",
                 # (no closed form when the render data sets a locale / currency: Babel follows them)
                 lambda now, d: None if ("locale" in d or "currency_code" in d) else "$0.12|$2.35|2|4|$0.12|1.0|$2.67"),
    "partialdate": ("{{ '10:30' | date: '%Y-%m-%d %H:%M' }}|{{ '5 March' | date: '%Y-%m-%d' }}|{{ '23:59:59' | date: '%j %H' }}",
                    lambda now, d: "|".join([_fmt_dt(now, "%Y-%m-%d") + " 10:30", _fmt_dt(now, "%Y") + "-03-05",
                                             _fmt_dt(now, "%j") + " 23"])),
    "sumtypes": ("{{ ints | sum }}|{{ floats | sum }}|{{ ints | sum }}|{{ 1 | plus: 1 }}|{{ 1.0 | plus: 1 }}|{{ mixed | sum }}|{{ '2' | plus: '2.0' }}",
                 lambda now, d: "3|3.0|3|2|2.0|2.0|4.0"),
    "strobj": ("[{{ bombs }}]|{{ bombs | join: ',' }}|{{ sobj }}", lambda now, d: "[1B3]|1,B,3|" + d["sobj"]["__strobj__"]),
    "nowtwice": ("{{ 'now' | date: '%s' }}-{{ 'now' | date: '%s' }}-{{ now | date: '%s' }}",
                 lambda now, d: f"{int(now)}-{int(now)}-{int(now)}"),
    # an arrow function whose body reads its parameter twice (state kept on the parsed node between
    # the two reads shows when another render of the same template runs in between: F13, batches)
    "lamtwice": ("{{ products | where: x => x.meta.n == x.meta.n | map: i => i.meta.n | join: ',' }}"
                 "|{% assign hit = products | find: it => it.meta.n >= it.meta.n %}{{ hit.meta.n }}",
                 lambda now, d: ",".join(str(i) for i in range(len(d["products"]))) + "|" + ("0" if d["products"] else "")),
    "wsctl": ("a  {%- if true -%}  b  {%- endif -%}  c {{- 'd' -}}  e {%~ assign x = 1 ~%}\n f {{~ s | size ~}} \n g{% if false -%} h {%- endif %}  i",
              lambda now, d: None),
    "decimalfmt": ("{{ 1234.5 | decimal }}|{{ 98765.4321 | decimal: group_separator: false }}|{{ 0.5 | decimal }}|{{ 1234.5 | money }}",
                   lambda now, d: None),
    # first-render races (lazily built per-template / per-node state) and filter instances shared
    # by every render of an environment: programs whose result differs with the data
    "static": ("Just text,\n  nothing to evaluate: {not} { % even % } this.\n",
               lambda now, d: "Just text,\n  nothing to evaluate: {not} { % even % } this.\n"),
    "casestr": ("{% case s %}{% when 'alpha' %}A{% when 'beta', 'Gamma' %}BG{% when 'delta' %}D{% else %}E{% endcase %}"
                "|{% case t %}{% when 'alpha' %}a{% when 'beta' %}b{% when 'Gamma' %}g{% when 'delta' %}d{% endcase %}",
                lambda now, d: {"alpha": "A", "beta": "BG", "Gamma": "BG", "delta": "D"}.get(d["s"], "E") + "|"
                + {"alpha": "a", "beta": "b", "Gamma": "g", "delta": "d"}.get(d["t"], "")),
    "jsonindent": ("{{ nums | json }}|{{ nums | json: 2 }}|{{ nums | json }}|{{ unsorted | json: 1 }}",
                   lambda now, d: "|".join([json.dumps(d["nums"]), json.dumps(d["nums"], indent=2), json.dumps(d["nums"]),
                                            json.dumps(d["unsorted"], indent=1)])),
    "striphtml": ("{{ '<b>' | append: s | append: '</b> <i>' | append: t | append: '</i>' | strip_html }}|{{ '<p>fixed</p> text' | strip_html }}",
                  lambda now, d: None),
}
NEEDS_PARTIALS = {"inherit", "incpart", "renpart", "nowparts", "nowblock", "macrorender"}

# environment-isolation probe set (time independent); outcomes may be errors
PROBES = (
    "{{ 'abc' | upcase }}|{{ 'ABC' | downcase }}|{{ 'x' | append: 'y' }}",
    "{{ 'a' | shout }}",
    "{% mytag %}",
    "{{ gv }}|{{ extra }}|{{ tclass }}|{{ missing }}",
    "{{ 'a,b' | split: ',' | join: '+' }}|{{ 'q' | upcase }}",
    "{{ $price }}",
    "{% for i in (1..5) %}{{ i }}{% endfor %}",
    "{{ 'hello' | t }}|{{ 'hi %(you)s' | t: you: 'X' }}",
    "{% if true %}  {% endif %}|",
    "{% increment z %}{% increment z %}",
    "{{ '<b>' }}|{{ nosuch.thing }}",
    "{{ 3 | plus: 4 }}{% assign q = 1 %}  x",
    "{% translate %}Hello{% endtranslate %}|{% translate count: 2 %}one{% plural %}many{% endtranslate %}",
    "{{ 'Hello' | gettext }}|{{ 'one' | ngettext: 'many', 2 }}|{{ 1.5 | decimal }}|{{ 1 | money }}",
    "{% macro m a %}[{{ a }}]{% endmacro %}{% call m 1 %}{% cycle 'a', 'b' %}{% cycle 'a', 'b' %}",
    "{{ 'x' | date: '%Y' }}|{{ nothing | default: 'd' }}|{{ '<i>' | escape }}",
    "{% assign locale = 'tlh' %}{{ 1234.5 | money }}|{{ 1234.5 | decimal }}|{{ 1234.5 | currency }}",
    "{% include 'footer' %}",
    "{{ nums2 | sum }}|{{ 1.5 | plus: 1 }}|{{ 2 | times: 2 }}",
)

CONFIG_KINDS = ("add_filter", "replace_filter", "del_filter", "add_tag", "globals_set", "globals_replace",
                "translation_filters", "translation_filters_var", "translation_filters_default",
                "loop_limit", "undefined", "trim", "suppress_blank", "output_limit", "replace_tag",
                "context_depth", "namespace_limit", "auto_escape_on", "replace_json", "currency_de", "loader_add",
                "filter_ctx", "filter_plain", "template_class", "lexer_dollar")


class Violation(Exception):
    def __init__(self, kind: str, **detail) -> None:
        super().__init__(kind)
        self.kind = kind
        self.detail = detail


def _shout(val, *a, **k):
    return str(val).upper() + "!"


def _weird_upcase(val, *a, **k):
    return "~" + str(val) + "~"


class _CtxUpcase:
    """A class-based, context-aware replacement for a plain built-in filter."""

    with_context = True

    def __call__(self, val, *a, context, **k):
        return str(val).upper() + "@" + str(context.resolve("gv", default="-"))


def _plain_join(val, sep=" "):
    """A plain replacement for an environment-aware built-in filter."""
    return str(sep).join(str(i) for i in val)


def apply_config(env, op: dict) -> None:
    """A configure step, applied identically to shared and to fresh environments."""
    from liquid2 import Node
    from liquid2 import StrictUndefined
    from liquid2 import Tag
    from liquid2 import WhitespaceControl
    from liquid2.builtin import register_translation_filters

    k = op["what"]
    if k == "add_filter":
        env.filters["shout"] = _shout
    elif k == "replace_filter":
        env.filters["upcase"] = _weird_upcase
    elif k == "del_filter":
        env.filters.pop("downcase", None)
    elif k == "add_tag":
        class MyNode(Node):
            def render_to_output(self, context, buffer):
                return buffer.write("<mytag>")

        class MyTag(Tag):
            block = False

            def parse(self, stream):
                return MyNode(stream.current())

        env.tags["mytag"] = MyTag(env)
    elif k == "globals_set":
        env.globals["extra"] = op.get("v", "X")
    elif k == "globals_replace":
        env.globals = {"gv": op.get("v", "R")}
    elif k == "translation_filters":
        register_translation_filters(env, replace=True, message_interpolation=False)
    elif k == "translation_filters_var":
        register_translation_filters(env, replace=True, translations_var="i18n")
    elif k == "translation_filters_default":
        class French:
            def gettext(self, m):
                return "FR(" + m + ")"

            def ngettext(self, s1, p, n):
                return "FR1(" + s1 + ")" if n == 1 else "FRN(" + p + ")"

            def pgettext(self, c, m):
                return "FR[" + c + "](" + m + ")"

            def npgettext(self, c, s1, p, n):
                return "FR1[" + c + "](" + s1 + ")" if n == 1 else "FRN[" + c + "](" + p + ")"

        register_translation_filters(env, replace=True, translations_var="tr2", default_translations=French(),
                                     autoescape_message=True)
    elif k == "replace_tag":
        from liquid2.builtin import IncrementTag

        env.tags["decrement"] = IncrementTag(env)
    elif k == "context_depth":
        env.context_depth_limit = 3
    elif k == "namespace_limit":
        env.local_namespace_limit = 100
    elif k == "auto_escape_on":
        env.auto_escape = True
    elif k == "replace_json":
        from liquid2.builtin import JSON

        env.filters["json"] = JSON(default=lambda o: "<obj>")
    elif k == "currency_de":
        from liquid2.builtin import Currency
        from liquid2.builtin import Number

        env.filters["money"] = Currency(default_locale="de")
        env.filters["decimal"] = Number(default_locale="de")
    elif k == "loader_add":
        t = getattr(env.loader, "templates", None)
        if isinstance(t, dict):     # the application adds a template to this environment's dict loader
            dict.__setitem__(t, "footer", "FOOTER-" + str(op.get("v", "X")))
    elif k == "filter_ctx":
        env.filters["upcase"] = _CtxUpcase()
    elif k == "filter_plain":
        env.filters["join"] = _plain_join
    elif k == "template_class":
        env.template_class = worlds.page_template()
    elif k == "lexer_dollar":
        env.lexer_class = worlds.dollar_lexer()
    elif k == "loop_limit":
        env.loop_iteration_limit = 3
    elif k == "output_limit":
        env.output_stream_limit = 5
    elif k == "undefined":
        env.undefined = StrictUndefined
    elif k == "trim":
        env.default_trim = WhitespaceControl.MINUS
    elif k == "suppress_blank":
        env.suppress_blank_control_flow_blocks = False
    else:
        raise ValueError(k)


class PristineRef:
    """Oracle 6: the same call on fresh objects in a PROCESS that has never rendered.

    At the start of the run (before the first parse) the child forks a reference
    server; the server itself never touches the library, it forks one grandchild
    per request, which rebuilds the fresh world from the plan prefix, executes the
    call and replies.  Whatever an earlier step left behind in module globals,
    class attributes, caches or anything else the shared world AND its in-process
    fresh twin both see, the grandchild does not.
    """

    def __init__(self, plan: dict) -> None:
        import os

        self.req_r, self.req_w = os.pipe()
        self.rep_r, self.rep_w = os.pipe()
        self.pid = os.fork()
        if self.pid == 0:
            try:
                os.close(self.req_w)
                os.close(self.rep_r)
                self._serve(plan)
            finally:
                os._exit(0)
        os.close(self.req_r)
        os.close(self.rep_w)
        self.asked = 0

    @staticmethod
    def _read_msg(fd):
        import os

        head = b""
        while len(head) < 8:
            b = os.read(fd, 8 - len(head))
            if not b:
                return None
            head += b
        n = int(head)
        buf = b""
        while len(buf) < n:
            b = os.read(fd, n - len(buf))
            if not b:
                return None
            buf += b
        return json.loads(buf.decode())

    @staticmethod
    def _write_msg(fd, obj) -> None:
        import os

        data = json.dumps(obj, default=str).encode()
        os.write(fd, b"%08d" % len(data) + data)

    def _serve(self, plan: dict) -> None:
        import os
        import signal

        # NB: no faulthandler.dump_traceback_later here: the watchdog thread of the parent does
        # not survive fork() and re-arming it in a forked process deadlocks; SIGALRM's default
        # action (terminate) bounds a hanging grandchild instead.
        while True:
            req = self._read_msg(self.req_r)
            if req is None:
                return
            pid = os.fork()
            if pid == 0:
                try:
                    signal.alarm(40)
                    try:
                        out = self._compute(plan, req)
                    except Inconclusive as exc:
                        out = ["inconclusive", str(exc)]
                    except BaseException as exc:  # noqa: BLE001
                        out = ["harness_error", f"{type(exc).__name__}: {exc}"]
                    self._write_msg(self.rep_w, out)
                finally:
                    os._exit(0)
            os.waitpid(pid, 0)

    @staticmethod
    def _compute(plan: dict, req: dict):
        segs = common.Segments(plan["seed"], "fifo")
        w = World(plan, segs, build_shared=False)  # nothing but the fresh twin is ever built here
        w.t0 = req["t0"]
        simclock.CLOCK.now = req["now"]
        ei = req["ei"]
        w.env_events[ei] = [tuple(e) for e in req["events"]]
        if req.get("probe"):
            inst = w.fresh_for(ei)
            w.activate(inst, ei)
            return _listify(w.probe_env(inst.envs[ei], ei))
        for hid, h in req["hspec"].items():
            w.hspec[int(hid)] = h
        inst = w.fresh_for(ei, req["step"]["h"])
        out, _ = w.call(inst, req["step"], solo_sid="pr")
        return list(out)

    def ask(self, w, ei: int, step: dict):
        self.asked += 1
        self._write_msg(self.req_w, {"now": w.clock.now, "t0": w.t0, "ei": ei, "events": w.env_events[ei],
                                     "hspec": {str(k): v for k, v in w.hspec.items()}, "step": step})
        rep = self._read_msg(self.rep_r)
        if rep is None:
            raise RuntimeError("pristine reference server died")
        if rep[0] == "inconclusive":
            raise Inconclusive(rep[1])
        if rep[0] == "harness_error":
            raise RuntimeError("pristine reference failed: " + rep[1])
        return _detuple(rep)

    def ask_probe(self, w, ei: int):
        self._write_msg(self.req_w, {"now": w.clock.now, "t0": w.t0, "ei": ei, "events": w.env_events[ei],
                                     "hspec": {}, "probe": True})
        rep = self._read_msg(self.rep_r)
        if rep is None:
            raise RuntimeError("pristine reference server died")
        if rep and rep[0] == "inconclusive":
            raise Inconclusive(rep[1])
        if rep and rep[0] == "harness_error":
            raise RuntimeError("pristine reference failed: " + rep[1])
        return rep

    def close(self) -> None:
        import os

        for fd in (self.req_w, self.rep_r):
            try:
                os.close(fd)
            except OSError:
                pass
        try:
            os.waitpid(self.pid, 0)
        except ChildProcessError:
            pass


def _detuple(x):
    """JSON turns tuples into lists; outcomes are compared as nested lists."""
    return x


def _listify(x):
    if isinstance(x, (tuple, list)):
        return [_listify(v) for v in x]
    if isinstance(x, dict):
        return {k: _listify(v) for k, v in x.items()}
    return x


class Inst:
    """A set of live objects: shared world or a fresh twin."""

    def __init__(self) -> None:
        self.envs: dict[int, object] = {}
        self.stores: dict[int, object] = {}
        self.handles: dict[int, tuple] = {}


class World:
    def __init__(self, plan: dict, segs: common.Segments, build_shared: bool = True) -> None:
        self.plan = plan
        self.segs = segs
        self.clock = simclock.CLOCK
        self.shared = Inst()
        self.env_events: dict[int, list] = {i: [] for i in range(len(plan["envs"]))}
        self.hspec: dict[int, dict] = {}
        self.counters: dict[str, int] = {}
        self.memo: dict[str, tuple] = {}
        self.tdecisions: dict[str, list] = {}
        self.thread_handles = 0
        self.trace: list = []
        self.pristine: PristineRef | None = None
        self.last_data = None
        self.last_probe: dict | None = None
        self.probe_before: dict[int, list] | None = None
        self.t0 = self.clock.now
        if build_shared:
            for i in range(len(plan["envs"])):
                self.build_env(self.shared, i)

    def count(self, k: str, n: int = 1) -> None:
        self.counters[k] = self.counters.get(k, 0) + n

    # ------------------------------------------------------ construction
    def build_env(self, inst: Inst, ei: int):
        spec = self.plan["envs"][ei]
        if spec.get("default_global"):
            import liquid2

            if inst is self.shared:
                inst.envs[ei] = liquid2.DEFAULT_ENVIRONMENT
            else:
                inst.envs[ei] = liquid2.Environment()
            inst.stores[ei] = None
            return inst.envs[ei]
        st = worlds.make_store(spec["loader"], spec["partials"], self.t0)
        worlds.activate(st)
        loader = worlds.make_loader(spec["loader"], st, capacity=spec.get("capacity", 300))
        g = json.loads(json.dumps(spec.get("globals") or {}))  # fresh mutable globals each time
        envc = dict(spec["env"])
        envc["globals"] = g
        env = worlds.make_env(envc, loader)
        inst.envs[ei] = env
        inst.stores[ei] = st
        return env

    def obtain(self, inst: Inst, hid: int):
        h = self.hspec[hid]
        env = inst.envs[h["env"]]
        try:
            if h["how"] == "parse":
                if self.plan["envs"][h["env"]].get("default_global") and inst is self.shared:
                    import liquid2

                    t = liquid2.parse(h["src"], name=h.get("name", ""), globals=_copy(h.get("globals")))
                else:
                    t = env.from_string(h["src"], name=h.get("name", ""), globals=_copy(h.get("globals")))
            else:
                t = env.get_template(h["name"], globals=_copy(h.get("globals")))
            inst.handles[hid] = ("ok", t)
        except Inconclusive:
            raise
        except BaseException as exc:  # noqa: BLE001
            inst.handles[hid] = canon_exc(exc)
        return inst.handles[hid]

    def fresh_for(self, ei: int, hid: int | None = None) -> Inst:
        """Objects built from scratch: env ``ei`` with its configuration so far,
        handle ``hid`` obtained at the same point of the configuration history."""
        inst = Inst()
        env = self.build_env(inst, ei)
        for ev in self.env_events[ei]:
            if ev[0] == "config":
                apply_config(env, ev[1])
            elif ev[0] == "obtain" and ev[1] == hid:
                self.obtain(inst, hid)
            elif ev[0] == "pickle" and ev[1] == hid:
                # the shared handle went through pickle here and now lives on a detached copy of
                # its environment: the reference is the ORIGINAL (never pickled) template on an
                # environment whose configuration stops at this point
                break
        return inst

    def activate(self, inst: Inst, ei: int) -> None:
        st = inst.stores.get(ei)
        if st is not None:
            worlds.activate(st)

    # ------------------------------------------------------------- calls
    def raw_data(self, spec: dict) -> dict:
        d = gprog.make_data(random.Random(spec["seed"]))
        d["nums"] = [1, 2, 3, 4]
        d["unsorted"] = [3, 1, 2]
        d["_lang"] = ("T", "FR", "DE", "JA")[spec["seed"] % 4] if spec.get("catalog") else None
        d["s2"] = "Tom & Jerry's"
        d["ints"], d["floats"], d["mixed"] = [1, 2], [1.0, 2.0], [1, 1.0]
        d.update(spec.get("extra") or {})
        return d

    def data(self, spec: dict, fault: dict | None, tag: str):
        key = json.dumps({k: v for k, v in spec.items() if k not in ("reuse", "call")}, sort_keys=True)
        if (tag == "shared" and spec.get("reuse") and not fault and self.last_data is not None
                and self.last_data[2] == key):
            # the caller passes the very same objects again: a render that changed them in
            # place shows here (the twin always gets freshly built data)
            self.count("caller_data_reused")
            return self.last_data[0], self.last_data[1]
        d = self.raw_data(spec)
        fail_at = fault["k"] if fault and fault["kind"] == "data_k" else None
        ctl = DropCtl("d", fail_at=fail_at, exc=(fault or {}).get("exc", "InjectedFault"))
        w = wrap_data(d, spec.get("drops") or {"mode": "all"}, ctl)
        if spec.get("catalog"):
            # a fresh catalog object per render, in a language that depends on the data
            w["translations"] = worlds.Catalog(("T", "FR", "DE", "JA")[spec["seed"] % 4])
        if tag == "shared" and not fault:
            self.last_data = (w, ctl, key)
        return w, ctl

    def call(self, inst: Inst, step: dict, *, solo_sid: str | None = None):
        """Execute a render/analyze step on ``inst``; returns (outcome, ctl, reads)."""
        hid = step["h"]
        ei = self.hspec[hid]["env"]
        self.activate(inst, ei)
        st = inst.handles.get(hid)
        if st is None:
            st = self.obtain(inst, hid)
        if st[0] != "ok":
            return st, None
        t = st[1]
        fault = step.get("fault")
        store = inst.stores.get(ei)
        if store is not None:
            store.rlog.fail_at = fault["j"] if fault and fault["kind"] == "loader_j" else None
            store.rlog.calls = 0
        try:
            if step["op"] == "analyze":
                try:
                    from checks.c03 import canon_analysis

                    return ("ok", canon_analysis(t.analyze(include_partials=True))), None
                except Inconclusive:
                    raise
                except BaseException as exc:  # noqa: BLE001
                    return canon_exc(exc), None
            d, ctl = self.data(step["data"], fault, "shared" if inst is self.shared else "d")
            if fault and fault["kind"] == "reent_k":
                # F13 re-entrancy: at data access k the data source renders the SAME template on the
                # same environment (nested, with its own plain data) and throws the result away
                nd = wrap_data(self.raw_data(step["data"]), {"mode": "none"}, DropCtl("n"))
                if step["data"].get("catalog"):
                    nd["translations"] = worlds.Catalog("N")

                def nested(t=t, nd=nd):
                    try:
                        t.render(**nd)
                    except Inconclusive:
                        raise
                    except Exception:  # noqa: BLE001
                        pass

                ctl.reenter_at = fault["k"]
                ctl.reenter = nested
            conv = step["data"].get("call")
            args, kws = ((), d)
            if conv == "pos":          # the caller's mapping passed positionally (never to be written to)
                args, kws = ((d,), {})
            elif conv == "poskw":      # ... plus keyword arguments that must not end up in it
                args, kws = ((d,), {"extra": "KW", "gv": "KWG"})
            if step.get("mode", "s") == "s":
                try:
                    return ("ok", common.norm(t.render(*args, **kws))), ctl
                except Inconclusive:
                    raise
                except BaseException as exc:  # noqa: BLE001
                    if isinstance(exc, (SystemExit, KeyboardInterrupt)):
                        raise
                    return canon_exc(exc), ctl
            cancel_at = fault["j"] if fault and fault["kind"] == "cancel_j" else None

            async def co():
                return await t.render_async(*args, **kws)

            return self.run_async(co(), solo_sid or f"s{step['id']}", cancel_at), ctl
        finally:
            if store is not None:
                store.rlog.fail_at = None

    def run_async(self, coro, sid: str, cancel_at: int | None = None):
        loop = self.segs.new_loop(None, sid)
        if cancel_at is not None:
            def on_dec():
                if loop.decision_no == cancel_at:
                    for t in asyncio.all_tasks(loop):
                        if t.get_name() == "main" and not t.done():
                            t.cancel()
                            self.count("F8_cancel")
            loop.on_decision = on_dec
        try:
            try:
                return ("ok", common.norm(loop.run_until_complete(coro)))
            except Inconclusive:
                raise
            except BaseException as exc:  # noqa: BLE001
                if isinstance(exc, (SystemExit, KeyboardInterrupt)):
                    raise
                return canon_exc(exc)
        finally:
            self.segs.finish(loop)
            common._drain(loop)

    # ----------------------------------------------------------- oracles
    def judge(self, step: dict, got, label: str, *, ref_sid: str | None = None) -> None:
        """Oracles 1-3 for one render/analyze step."""
        hid = step["h"]
        h = self.hspec[hid]
        ei = h["env"]
        fresh = self.fresh_for(ei, hid)
        if (step.get("fault") or {}).get("kind") == "reent_k":
            # a nested render is an independent render: the reference is the call WITHOUT it
            step = {k: v for k, v in step.items() if k != "fault"}
            label += "+reent"
        exp, _ = self.call(fresh, step, solo_sid=ref_sid or f"r{step['id']}")
        self.trace.append([step["id"], label, got, exp])
        self.activate(self.shared, ei)
        fault = step.get("fault")
        if fault and fault["kind"] == "cancel_j":
            self.count("cancelled_steps")
            return  # no reference for a cancelled step; its after-effects are checked by later steps
        if got != exp:
            raise Violation("differs_from_fresh", step=step["id"], op=step["op"], label=label, prog=h.get("prog"),
                            got=_short(got), expected=_short(exp))
        self.count("diff_ok")
        # oracle 6: the same call in a process that has never rendered
        if self.pristine is not None and self.pristine.asked < 10 and not label.startswith(("sweep-", "after-")):
            exp2 = self.pristine.ask(self, ei, step)
            if json.loads(json.dumps(_listify(got), default=str)) != exp2:
                raise Violation("differs_from_pristine_process", step=step["id"], op=step["op"], label=label,
                                prog=h.get("prog"), got=_short(got), expected=_short(exp2))
            self.count("pristine_process_ok")
        # oracle 2: closed form
        prog = h.get("prog")
        if (prog in STATEFUL and step["op"] == "render" and not fault
                and step["data"].get("call") != "poskw"    # (keyword arguments are extra inputs)
                and self.plain_env(ei, allow_auto_escape=(prog == "escprobe")) and not h.get("globals")):
            rd = self.raw_data(step["data"])
            rd["_auto_escape"] = bool((self.plan["envs"][ei].get("env") or {}).get("auto_escape"))
            want = STATEFUL[prog][1](self.clock.now, rd)
            if want is None:
                want = got[1] if got[0] == "ok" else None
            plain_data = (step["data"].get("drops") or {}).get("mode") == "none"
            # an error where text is expected counts only for plain data: wrapped data
            # (Mapping/Sequence doubles) legitimately fails some filters' type checks
            if (got[0] == "ok" and got[1] != want) or (got[0] != "ok" and plain_data):
                raise Violation("closed_form", step=step["id"], prog=prog, got=_short(got), expected=want)
            self.count("closed_form_ok")
        # oracle 3: drift of the reference itself
        key = digest([ei, len(self.env_events[ei]), [e for e in self.env_events[ei] if e[0] == "config"],
                      h, step["op"], step.get("data"), step.get("fault"), step.get("mode"), self.clock.now])
        first = self.memo.get(key)
        if first is None:
            self.memo[key] = exp
        else:
            self.count("drift_checked")
            if first != exp:
                raise Violation("reference_drift", step=step["id"], prog=prog, first=_short(first), now=_short(exp))

    def plain_env(self, ei: int, allow_auto_escape: bool = False) -> bool:
        spec = self.plan["envs"][ei]
        if spec.get("default_global"):
            return not any(e[0] == "config" for e in self.env_events[ei])
        e = spec["env"]
        return ((allow_auto_escape or not e.get("auto_escape")) and not e.get("undefined") and not e.get("trim")
                and e.get("suppress_blank_control_flow_blocks") is None and not e.get("loop_iteration_limit")
                and not e.get("shorthand_indexes")
                and not e.get("output_stream_limit") and not e.get("local_namespace_limit")
                and not e.get("context_depth_limit") and not spec.get("globals")
                and not any(ev[0] == "config" for ev in self.env_events[ei]))

    def probe_env(self, env, ei: int) -> list:
        out = []
        for src in PROBES:
            try:
                t = env.from_string(src)
                out.append(("ok", common.norm(t.render(translations=worlds.Catalog(), nums2=[1, 2.5], **{"$price": 21}))))
            except Inconclusive:
                raise
            except BaseException as exc:  # noqa: BLE001
                if isinstance(exc, (SystemExit, KeyboardInterrupt)):
                    raise
                out.append(canon_exc(exc))
        return out

    def probe_all(self) -> dict[int, list]:
        res = {}
        for ei, env in self.shared.envs.items():
            self.activate(self.shared, ei)
            res[ei] = self.probe_env(env, ei)
        # a brand-new default environment must be unaffected too
        import liquid2

        res[-1] = self.probe_env(liquid2.Environment(), -1)
        res[-2] = self.probe_env(liquid2.DEFAULT_ENVIRONMENT, -2) if not any(
            s.get("default_global") for s in self.plan["envs"]) else []
        return res


def _copy(x):
    return json.loads(json.dumps(x)) if x is not None else None


def _short(x, n=900):
    s = json.dumps(x, default=str)
    return s if len(s) <= n else s[:n] + "..."


# -------------------------------------------------------------- execution
def do_step(w: World, step: dict) -> None:
    k = step["op"]
    w.count("op:" + k)
    if k in ("parse", "get"):
        hid = step["h"]
        w.hspec[hid] = {kk: step[kk] for kk in ("env", "src", "name", "globals", "prog") if kk in step}
        w.hspec[hid]["how"] = "parse" if k == "parse" else "get"
        w.env_events[step["env"]].append(("obtain", hid))
        w.activate(w.shared, step["env"])
        got = w.obtain(w.shared, hid)
        fresh = w.fresh_for(step["env"], hid)
        exp = fresh.handles.get(hid)
        a = got if got[0] != "ok" else ("ok", got[1].name, str(got[1].path), got[1].full_name(), str(got[1]),
                                        type(got[1]).__name__)
        b = exp if exp[0] != "ok" else ("ok", exp[1].name, str(exp[1].path), exp[1].full_name(), str(exp[1]),
                                        type(exp[1]).__name__)
        if a != b:
            raise Violation("load_differs_from_fresh", step=step["id"], got=_short(a), expected=_short(b))
    elif k in ("render", "analyze"):
        if step["h"] not in w.hspec:
            return
        f = step.get("fault")
        if f and f["kind"] == "loader_j":
            spec = w.plan["envs"][w.hspec[step["h"]]["env"]]
            pickled = any(ev[0] == "pickle" and ev[1] == step["h"]
                          for ev in w.env_events[w.hspec[step["h"]]["env"]])
            # (a handle that went through pickle lives on a detached copy of its environment and
            # loader: a positional fault armed on the instrumented store cannot reach that copy)
            if spec.get("default_global") or spec["loader"].startswith("c") or pickled:
                # a cache legitimately hides a storage fault (C14's permitted staleness):
                # positional loader faults are injected only where nothing is cached
                step = {k: v for k, v in step.items() if k != "fault"}
        if step.get("fault"):
            w.count("F_" + step["fault"]["kind"])
        got, ctl = w.call(w.shared, step)
        if ctl is not None and ctl.fired:
            w.count("F2_data_fault_fired")
        if ctl is not None and ctl.reentered:
            w.count("F13_reentrant_render_fired")
        if got[0] == "err":
            w.count("err:" + got[1])
            if got[1] == "OSError:EIO":
                w.count("F3_loader_fault_fired")
        w.judge(step, got, "seq")
    elif k == "sweep":
        do_sweep(w, step)
    elif k == "par":
        do_par(w, step)
    elif k == "tpar":
        do_tpar(w, step)
    elif k == "advance":
        w.clock.advance(step["dt"])
        w.count("F7_clock")
    elif k == "configure":
        ei = step["env"]
        if w.plan["envs"][ei].get("default_global"):
            # the process-wide default environment may be configured too (render-time settings only)
            if step["what"] not in ("globals_set", "add_filter", "replace_filter", "loop_limit", "undefined",
                                    "suppress_blank", "output_limit", "replace_json", "translation_filters",
                                    "currency_de", "loader_add", "filter_ctx", "filter_plain"):
                return
        elif w.plan["envs"][ei]["loader"].startswith("c") and step["what"] in ("del_filter", "trim", "replace_tag",
                                                                                "loader_add", "template_class",
                                                                                "lexer_dollar"):
            # parse-time configuration (and changes of the loader's contents): a caching loader
            # legitimately keeps templates parsed under the earlier configuration / contents,
            # a fresh one re-parses them (permitted staleness is C14's subject, not C09's)
            w.count("config_skipped_parse_time_on_caching_loader")
            return
        # the outcomes recorded after the previous configure step serve as "before": nothing a
        # render does in between may change another environment's probes either
        before = w.last_probe if w.last_probe is not None else w.probe_all()
        apply_config(w.shared.envs[ei], step)
        w.env_events[ei].append(("config", {kk: vv for kk, vv in step.items() if kk not in ("op", "id", "env")}))
        after = w.probe_all()
        w.last_probe = after
        for oi in before:
            if oi == ei:
                continue
            if before[oi] != after[oi]:
                raise Violation("env_isolation", step=step["id"], configured=ei, other=oi, what=step["what"],
                                before=_short(before[oi]), after=_short(after[oi]))
        # the configured env must equal a fresh one given the same configuration
        fresh = w.fresh_for(ei)
        w.activate(fresh, ei)
        exp = w.probe_env(fresh.envs[ei], ei)
        w.activate(w.shared, ei)
        if after[ei] != exp:
            raise Violation("configured_env_differs_from_fresh", step=step["id"], what=step["what"],
                            got=_short(after[ei]), expected=_short(exp))
        w.count("isolation_checked")
    elif k == "burst":
        # many unjudged renders in a row (state that only shows after N uses: pools, thresholds,
        # caches that start answering once they are warm), then ordinary judged steps follow
        st = w.shared.handles.get(step["h"])
        if st is not None and st[0] == "ok":
            for i in range(step["n"]):
                d, _ = w.data({**step["data"], "seed": step["data"]["seed"] + i}, None, "d")
                try:
                    st[1].render(**d)
                except Inconclusive:
                    raise
                except Exception:  # noqa: BLE001
                    pass
            w.count("burst_renders", step["n"])
    elif k == "repickle":
        # the application ships the parsed template through pickle (supported: tests/test_pickle.py)
        import pickle

        st = w.shared.handles.get(step["h"])
        if st is not None and st[0] == "ok":
            try:
                t2 = pickle.loads(pickle.dumps(st[1]))
            except Exception:  # noqa: BLE001 - e.g. a locally defined custom tag: not picklable, skip
                w.count("pickle_skipped")
            else:
                w.shared.handles[step["h"]] = ("ok", t2)
                # the twin goes through pickle at the same point of the configuration history
                w.env_events[w.hspec[step["h"]]["env"]].append(("pickle", step["h"]))
                w.count("pickled")
    elif k == "oneshot":
        # module-level liquid2.render()/render_async() on DEFAULT_ENVIRONMENT
        import liquid2

        d, _ = w.data(step["data"], None, "d")
        try:
            if step.get("mode", "s") == "s":
                got = ("ok", common.norm(liquid2.render(step["src"], **d)))
            else:
                async def co():
                    return await liquid2.render_async(step["src"], **d)
                got = w.run_async(co(), f"s{step['id']}")
        except Inconclusive:
            raise
        except BaseException as exc:  # noqa: BLE001
            got = canon_exc(exc)
        d2, _ = w.data(step["data"], None, "d")
        dei = next((i for i, e in enumerate(w.plan["envs"]) if e.get("default_global")), None)
        configured = dei is not None and any(ev[0] == "config" for ev in w.env_events[dei])
        try:
            ref_env = w.fresh_for(dei).envs[dei] if dei is not None else liquid2.Environment()
            exp = ("ok", common.norm(ref_env.from_string(step["src"]).render(**d2)))
        except Inconclusive:
            raise
        except BaseException as exc:  # noqa: BLE001
            exp = canon_exc(exc)
        if got != exp:
            raise Violation("differs_from_fresh", step=step["id"], op="oneshot", got=_short(got), expected=_short(exp))
        prog = step.get("prog")
        if prog in STATEFUL and prog not in NEEDS_PARTIALS and got[0] == "ok" and not configured:
            want = STATEFUL[prog][1](w.clock.now, w.raw_data(step["data"]))
            if want is not None and got[1] != want:
                raise Violation("closed_form", step=step["id"], prog=prog, got=got[1], expected=want)
            w.count("closed_form_ok")
    else:
        raise ValueError(k)


def do_sweep(w: World, step: dict) -> None:
    """Fault enumeration: the fault at EVERY position k of one call, each followed
    by an unfaulted call on the same shared objects (bounded recovery)."""
    hid = step["h"]
    if hid not in w.hspec:
        return
    base = {"op": "render", "h": hid, "data": step["data"], "mode": step.get("mode", "s"), "id": f"{step['id']}.0"}
    got, ctl = w.call(w.shared, base)
    w.judge(base, got, "sweep-base")
    kind = step["kind"]
    if kind in ("data_k", "reent_k"):
        n = ctl.count if ctl is not None else 0
        key = "k"
    elif kind == "loader_j":
        ei = w.hspec[hid]["env"]
        st = w.shared.stores.get(ei)
        if st is None or w.plan["envs"][ei]["loader"].startswith("c"):
            return  # loader faults only where nothing is cached (see DESIGN 6.9)
        n = getattr(st.rlog, "calls", 0)
        key = "j"
    else:  # cancel_j
        if base["mode"] != "a":
            return
        n = len(w.segs.decisions.get(f"s{base['id']}", []))
        key = "j"
    cap = step.get("cap", 64)
    w.count("sweeps")
    for k in range(1, min(n, cap) + 1):
        f = dict(base, id=f"{step['id']}.{k}f", fault={"kind": kind, key: k})
        got, ctl2 = w.call(w.shared, f)
        w.count("sweep_positions")
        if ctl2 is not None and ctl2.fired:
            w.count("F2_data_fault_fired")
        if ctl2 is not None and ctl2.reentered:
            w.count("F13_reentrant_render_fired")
        if got[0] == "err" and got[1] == "OSError:EIO":
            w.count("F3_loader_fault_fired")
        if got[0] == "err":
            w.count("err:" + got[1])
        w.judge(f, got, f"sweep-{kind}@{k}")
        after = dict(base, id=f"{step['id']}.{k}a")
        got, _ = w.call(w.shared, after)
        w.judge(after, got, f"after-{kind}@{k}")


def do_tpar(w: World, step: dict) -> None:
    """Caller THREADS: k synchronous renders on shared objects of one environment, run by real
    threads whose interleaving the simulator decides (sim/threads.py: baton passing,
    pre-emption at seeded line events inside the library, SimLock).  Each result must equal
    the same call on freshly built objects, alone."""
    import os

    from sim import threads as simthreads

    prepared = []
    judged: list[dict] = []
    for tk in step["tasks"]:
        hid = tk["h"]
        if hid not in w.hspec:
            return
        w.activate(w.shared, w.hspec[hid]["env"])
        st = w.shared.handles.get(hid)
        if st is None or st[0] != "ok":
            return
        d, _ = w.data(tk["data"], None, "d")
        h = w.hspec[hid]
        if tk.get("parse") and h.get("how") == "parse":
            # the thread parses the source itself (the environment's parser and lexer are shared)
            env = w.shared.envs[h["env"]]
            prepared.append(((env, h["src"], h.get("name", ""), _copy(h.get("globals"))), d))
            # its reference is a parse under the configuration as of NOW: a handle of its own
            w.thread_handles += 1
            nh = 100_000 + w.thread_handles
            w.hspec[nh] = dict(h)
            w.env_events[h["env"]].append(("obtain", nh))
            tk = dict(tk, h=nh)
        else:
            prepared.append((st[1], d))
        judged.append(tk)

    def mk(t, d):
        def fn():
            try:
                if isinstance(t, tuple):
                    env, src, name, g = t
                    return ("ok", common.norm(env.from_string(src, name=name, globals=g).render(**d)))
                return ("ok", common.norm(t.render(**d)))
            except Inconclusive:
                raise
            except BaseException as exc:  # noqa: BLE001
                if isinstance(exc, (SystemExit, KeyboardInterrupt)):
                    raise
                return canon_exc(exc)
        return fn

    prefix = os.path.join(common.repo_root(), "liquid2") + os.sep
    sim = simthreads.ThreadSim(random.Random(f"{w.plan['seed']}:tpar:{step['id']}"), (prefix,),
                               decisions=(w.plan.get("tdecisions") or {}).get(str(step["id"])))
    res = sim.run([mk(t, d) for t, d in prepared])
    w.tdecisions[str(step["id"])] = sim.decisions
    w.count("thread_batches")
    w.count("thread_preemptions", sim.preemptions)
    w.count("thread_line_events", sim.line_events)
    if sim.preemptions:
        w.count("thread_batches_interleaved")
    for i, tk in enumerate(judged):
        r = res[i]
        if r[0] == "exc":
            raise r[1]
        st = {"op": "render", "h": tk["h"], "data": tk["data"], "mode": "s", "id": f"{step['id']}.{i}"}
        w.judge(st, r[1], "tpar")
    w.count("thread_tasks_judged", len(step["tasks"]))


def do_par(w: World, step: dict) -> None:
    tasks = step["tasks"]
    results: dict[int, tuple] = {}

    # a task that re-gets its template inside the batch holds a NEW handle, obtained at
    # this point of the environment's configuration history (the twin does the same)
    hid_of: dict[int, int] = {}
    for i, tk in enumerate(tasks):
        hid_of[i] = tk["h"]
        if tk["h"] in w.hspec and tk.get("reget") and w.hspec[tk["h"]]["how"] == "get":
            nh = 100000 + int(step["id"]) * 16 + i
            w.hspec[nh] = dict(w.hspec[tk["h"]])
            w.env_events[w.hspec[nh]["env"]].append(("obtain", nh))
            hid_of[i] = nh

    async def one(i, tk):
        st = w.shared.handles.get(tk["h"])
        if hid_of[i] != tk["h"]:
            h = w.hspec[hid_of[i]]
            env = w.shared.envs[h["env"]]
            try:
                t = await env.get_template_async(h["name"], globals=_copy(h.get("globals")))
                st = ("ok", t)
                w.shared.handles[hid_of[i]] = st
            except Inconclusive:
                raise
            except asyncio.CancelledError:
                raise
            except BaseException as exc:  # noqa: BLE001
                return canon_exc(exc)
        if st is None or st[0] != "ok":
            return st
        d, ctl = w.data(tk["data"], None, f"T{i}")
        try:
            return ("ok", common.norm(await st[1].render_async(**d)))
        except Inconclusive:
            raise
        except asyncio.CancelledError:
            raise
        except BaseException as exc:  # noqa: BLE001
            return canon_exc(exc)

    cancelled: set[int] = set()

    async def canceller(ts, target):
        from sim.loop import park as _park

        await _park("fault:cancel")
        if not ts[target].done():
            ts[target].cancel()
            cancelled.add(target)
            w.count("F8_cancel")

    async def batch():
        loop = asyncio.get_running_loop()
        ts = [loop.create_task(one(i, tk), name=f"T{i}") for i, tk in enumerate(tasks)]
        extra = []
        if step.get("cancel_target") is not None and step["cancel_target"] < len(ts):
            extra.append(loop.create_task(canceller(ts, step["cancel_target"]), name="X"))
        res = await asyncio.gather(*ts, *extra, return_exceptions=True)
        for i, r in enumerate(res[: len(ts)]):
            results[i] = canon_exc(r) if isinstance(r, BaseException) else r

    eis = {w.hspec[tk["h"]]["env"] for tk in tasks if tk["h"] in w.hspec}
    if len(eis) != 1:
        return
    ei = eis.pop()
    w.activate(w.shared, ei)
    out = w.run_async(batch(), f"s{step['id']}")
    if out[0] != "ok":
        raise Violation("batch_failed", outcome=out)
    w.count("par_batches")
    for i, tk in enumerate(tasks):
        inner = {"op": "render", "h": hid_of[i], "data": tk["data"], "mode": "a", "id": f"{step['id']}.{i}"}
        got = results.get(i)
        if got is None or got[0] not in ("ok", "err"):
            raise Violation("batch_lost_task", task=i)
        if got[0] == "err":
            w.count("err:" + got[1])
        if got[0] == "err" and got[1] == "CancelledError":
            if i not in cancelled:
                # nobody cancelled this render: another caller's cancellation reached it
                raise Violation("spurious_cancellation", step=step["id"], task=i, cancelled=sorted(cancelled))
            w.count("cancelled_steps")
            continue
        w.judge(inner, got, f"par[{i}]")
        w.count("par_tasks")


def execute(plan: dict) -> dict:
    common.setup_child()
    from sim import threads as simthreads
    simthreads.install_lock()
    segs = common.Segments(plan["seed"], plan["policy"], plan.get("decisions"))
    w = None
    status = "ok"
    violation = None
    pristine = PristineRef(plan) if plan.get("pristine_ref") else None
    try:
        w = World(plan, segs)
        w.pristine = pristine
        for step in plan["steps"]:
            do_step(w, step)
        if pristine is not None:
            # the same probe texts parsed and rendered under every environment's own
            # configuration, in this (used) process and in one that never rendered
            for ei, env in w.shared.envs.items():
                if plan["envs"][ei].get("default_global"):
                    continue
                w.activate(w.shared, ei)
                here = json.loads(json.dumps(_listify(w.probe_env(env, ei)), default=str))
                there = pristine.ask_probe(w, ei)
                if here != there:
                    raise Violation("probe_differs_from_pristine_process", env=ei, got=_short(here), expected=_short(there))
                w.count("pristine_probe_ok")
    except Violation as v:
        status = "violation"
        violation = {"property": PROP, "kind": v.kind, **json.loads(json.dumps(v.detail, default=str))}
        violation["sig"] = f"C09:{v.kind}"
    except Inconclusive as exc:
        status = "inconclusive"
        if w is not None:
            w.count("inconclusive:" + str(exc))
    finally:
        if pristine is not None:
            pristine.close()
    c = w.counters if w is not None else {}
    c["decisions"] = segs.total_decisions
    c["overlap_decisions"] = segs.overlap
    c["parks"] = segs.parks
    c["midnight_crossed"] = simclock.CLOCK.midnights
    c["clock_backwards"] = simclock.CLOCK.backwards
    for e in plan["envs"]:
        c["cfg:loader:" + ("DEFAULT_ENVIRONMENT" if e.get("default_global") else e["loader"])] = 1
    shared_steps = sum(1 for s in plan["steps"] if s["op"] in ("render", "analyze", "par", "sweep", "oneshot"))
    spice = sum(1 for s in plan["steps"] if s["op"] in ("advance", "configure", "sweep", "par") or s.get("fault"))
    res = {
        "status": status,
        "trace": digest(w.trace if w is not None else []),
        "counters": c,
        "sim_seconds": simclock.CLOCK.advanced,
        "digest": digest([plan["envs"], plan["steps"], segs.decisions, w.tdecisions if w is not None else {}]),
        "nontrivial": status == "ok" and shared_steps >= 2 and spice >= 1,
        "decisions": segs.decisions,
        "tdecisions": w.tdecisions if w is not None else {},
    }
    if violation:
        res["violation"] = violation
    return res


# -------------------------------------------------------------- generator
def gen_plan(seed: int, tier: str) -> dict:
    rng = random.Random(f"c09:{seed}")
    n_env = rng.choice([1, 1, 2, 2, 3])
    envs = []
    gen_parts: dict[str, str] = {}
    gen_progs = []
    shopify = rng.random() < 0.2
    for _ in range(rng.choice([1, 2, 3])):
        src, parts, _ = gprog.generate(rng, shopify=shopify, max_depth=rng.choice([2, 3]))
        gen_parts.update(parts)
        gen_progs.append(src)
    for i in range(n_env):
        if rng.random() < 0.25 and not any(e.get("default_global") for e in envs):
            envs.append({"default_global": True})
            continue
        plain = rng.random() < 0.55
        only_escape = (not plain) and rng.random() < 0.25
        envc = ({"shopify": True} if shopify else {}) if plain else ({"auto_escape": True} if only_escape else {
            "shopify": shopify,
            "shorthand_indexes": rng.choice([None, None, True]),
            "auto_escape": rng.random() < 0.3,
            "undefined": rng.choice([None, None, "strict", "falsy"]),
            "trim": rng.choice([None, None, "-", "~"]),
            "suppress_blank_control_flow_blocks": rng.choice([None, False]),
            "loop_iteration_limit": rng.choice([None, None, 6, 50]),
            "output_stream_limit": rng.choice([None, None, 40, 500]),
            "local_namespace_limit": rng.choice([None, None, 300]),
            "context_depth_limit": rng.choice([None, None, None, None, 5]),
            "translation_filters": rng.random() < 0.3,
        })
        spec = {
            "env": envc,
            "loader": rng.choice(LOADERS),
            "capacity": rng.choice([1, 2, 300]),
            "partials": {**BASE_PARTIALS, **gen_parts},
            "globals": None if plain else rng.choice([None, {"gv": "E", "cfgd": {"items": [1, 2, 3], "k": "v"}}]),
        }
        envs.append(spec)
    # application subclasses (own random stream: earlier plans keep their shape)
    rng3 = random.Random(f"c09x:{seed}")
    for e in envs:
        if not e.get("default_global"):
            if rng3.random() < 0.2:
                e["env"] = {**e["env"], "template_class": True}
            if rng3.random() < 0.12:
                e["env"] = {**e["env"], "lexer": "dollar"}
    uid = [0]

    def nid():
        uid[0] += 1
        return uid[0]

    steps = []
    handles: list[tuple[int, int]] = []  # (hid, env)

    def data_spec():
        return {"seed": rng.randrange(1 << 30),
                "drops": rng.choice([{"mode": "all"}, {"mode": "all", "seq": True}, {"mode": "none"},
                                     {"mode": "paths", "paths": ["user", "h", "products[0]"]}]),
                "catalog": rng.random() < 0.4}

    def new_handle():
        ei = rng.randrange(n_env)
        hid = len(handles)
        r = rng.random()
        dg = envs[ei].get("default_global")
        if r < 0.5:
            prog = rng.choice(list(STATEFUL))
            if dg and (prog in NEEDS_PARTIALS or rng.random() < 0.5):
                prog = rng.choice(["gvprobe", "gvprobe", "counters", "condmacro"])
            st = {"op": "parse", "id": nid(), "h": hid, "env": ei, "src": STATEFUL[prog][0], "prog": prog}
        elif r < 0.56:
            # a source that fails to parse (or to lex): whatever the parser keeps from the failed
            # attempt must not influence the next template parsed by the same environment
            bad = rng.choice(["{% if %}x{% endif %}", "{{ a | }}", "{% for x in %}{% endfor %}", "{% assign = 1 %}",
                              "{% endif %}", "{{ 'unterminated }}", "{% if a %}{% else %}{% else %}{% endif %}",
                              "{% case %}{% endcase %}", "{{ a.b[ }}", "{% macro %}{% endmacro %}", "{% raw %}never closed",
                              "{% block a %}{% block a %}{% endblock %}{% endblock %}{{ x | nosuchfilter }}",
                              "{% assign r = 1..5 %}", "{{ (1.. }}", "{% for i in (1..3 %}{% endfor %}", "{{ 'a' | append: (x }}",
                              "{{ a[ }}", "{% if (a or %}{% endif %}", "{{ \"${ (1.. }\" }}", "{% cycle (1..2 %}",
                              "{% liquid\nif\n%}", "{% translate %}{{ a.b }}{% endtranslate %}", "{{ \"${ }\" }}"])
            st = {"op": "parse", "id": nid(), "h": hid, "env": ei, "src": bad, "prog": "bad"}
        elif r < 0.8 or dg:
            st = {"op": "parse", "id": nid(), "h": hid, "env": ei, "src": rng.choice(gen_progs), "prog": "gen"}
        else:
            names = list(envs[ei]["partials"])
            st = {"op": "get", "id": nid(), "h": hid, "env": ei, "name": rng.choice(names), "prog": "partial"}
            if rng.random() < 0.35:
                # the same name fetched by several callers with equal-but-different globals (1 == True == 1.0)
                st["name"] = rng.choice(["part/gv", "part/gv", "./part/gv"])
                st["globals"] = {"gv": rng.choice([1, True, 1.0, 0, False, "1"]), "shared": {"n": rng.choice([1, True])}}
        if rng.random() < (0.5 if dg else 0.25):
            st["globals"] = {"gv": rng.choice(["G1", "G2", 1, True, 1.0]), "shared": {"list": [1, 2], "n": rng.choice([1, 2])}}
        if rng.random() < 0.2 and st["op"] == "parse":
            st["name"] = rng.choice(["main", "dir/page.html"])
        steps.append(st)
        handles.append((hid, ei))
        if st["op"] == "get" and rng.random() < 0.45:
            # the same name once more (a cache hit where the loader caches), other globals
            h2 = len(handles)
            steps.append({**st, "id": nid(), "h": h2,
                          "globals": {"gv": rng.choice(["H1", "H2", 1, True]), "shared": {"n": 3}}})
            handles.append((h2, ei))
            steps.append({"op": "render", "id": nid(), "h": h2, "mode": rng.choice("sa"), "data": data_spec()})
        if st.get("prog") == "bad" and rng.random() < 0.7:
            h2 = len(handles)
            steps.append({"op": "parse", "id": nid(), "h": h2, "env": ei, "src": rng.choice(gen_progs), "prog": "gen"})
            handles.append((h2, ei))
            steps.append({"op": "render", "id": nid(), "h": h2, "mode": rng.choice("sa"), "data": data_spec()})
        return hid

    n_steps = rng.randint(3, 10) if rng.random() < 0.5 else rng.randint(10, 30 if tier == "quick" else 40)
    new_handle()
    while len(steps) < n_steps:
        r = rng.random()
        if r < 0.12 and len(handles) < 8:
            new_handle()
        elif r < 0.55:
            hid = rng.choice(handles)[0]
            st = {"op": "render", "id": nid(), "h": hid, "mode": rng.choice("ssa"), "data": data_spec()}
            fr = rng.random()
            if fr < 0.12:
                st["fault"] = {"kind": "data_k", "k": rng.randint(1, 12),
                               "exc": rng.choice(["InjectedFault", "InjectedFault", "KeyError", "TypeError", "LiquidTypeError"])}
            elif fr < 0.17:
                st["fault"] = {"kind": "loader_j", "j": rng.randint(1, 4)}
            elif fr < 0.22 and st["mode"] == "a":
                st["fault"] = {"kind": "cancel_j", "j": rng.randint(1, 10)}
            elif fr < 0.27:
                st["fault"] = {"kind": "reent_k", "k": rng.randint(1, 12)}
            steps.append(st)
            if rng.random() < 0.5:  # render the same handle again straight away
                ds = data_spec()
                if rng.random() < 0.4 and not st.get("fault"):
                    ds = dict(st["data"], reuse=True)  # same seed, and the SAME objects on the shared side
                steps.append({"op": "render", "id": nid(), "h": hid, "mode": rng.choice("sa"), "data": ds})
        elif r < 0.585:
            steps.append({"op": "analyze", "id": nid(), "h": rng.choice(handles)[0]})
        elif r < 0.588:
            hid = rng.choice(handles)[0]
            steps.append({"op": "burst", "id": nid(), "h": hid, "n": rng.choice([40, 130, 300]), "data": data_spec()})
            steps.append({"op": "render", "id": nid(), "h": hid, "mode": rng.choice("sa"), "data": data_spec()})
        elif r < 0.592:
            # customise an environment, parse on it, ship the template through pickle, render
            cands = [i for i, e in enumerate(envs) if not e.get("default_global") and not e["loader"].startswith("c")]
            if cands and len(handles) < 8:   # (environments with caching loaders are not picklable at all)
                ei = rng.choice(cands)
                what = rng.choice(["replace_filter", "add_filter", "globals_set", "loop_limit",
                                   "translation_filters", "replace_json", "undefined"])
                steps.append({"op": "configure", "id": nid(), "env": ei, "v": rng.choice(["X", "Y"]), "what": what})
                hid = len(handles)
                steps.append({"op": "parse", "id": nid(), "h": hid, "env": ei, "prog": "envshow",
                              "src": "{{ 'abc' | upcase }}|" + ("{{ 'a' | shout }}|" if what == "add_filter" else "")
                                     + "{{ gv }}|{{ extra }}|{{ h | json }}|{{ 'hi %(you)s' | t }}|{{ missing }}"
                                     "{% if user.name %}{{ user.name | downcase }}{% endif %}"})   # no Identifier nodes: picklable
                handles.append((hid, ei))
                steps.append({"op": "repickle", "id": nid(), "h": hid})
                steps.append({"op": "render", "id": nid(), "h": hid, "mode": rng.choice("sa"), "data": data_spec()})
        elif r < 0.60:
            hid = rng.choice(handles)[0]
            steps.append({"op": "repickle", "id": nid(), "h": hid})
            steps.append({"op": "render", "id": nid(), "h": hid, "mode": rng.choice("sa"), "data": data_spec()})
        elif r < 0.70:
            steps.append({"op": "advance", "dt": rng.choice([0.001, 1, 1, 59, 3600, 86400, 86400 * 31, -5, -86400, 0,
                                                              86400 - (1_700_000_000 % 86400) + 1])})
        elif r < 0.78:
            ei = rng.randrange(n_env)
            what = rng.choice(CONFIG_KINDS)
            dgi = [i for i, e in enumerate(envs) if e.get("default_global")]
            if dgi and rng.random() < 0.5:
                ei = dgi[0]
                what = rng.choice(["globals_set", "add_filter", "replace_filter", "loop_limit", "undefined",
                                   "output_limit", "replace_json", "loader_add", "currency_de"])
                # the module-level API before and after: same source seen twice
                steps.append({"op": "oneshot", "id": nid(), "src": STATEFUL["gvprobe"][0], "prog": "gvprobe",
                              "mode": rng.choice("sa"), "data": data_spec()})
            steps.append({"op": "configure", "id": nid(), "env": ei, "what": what, "v": rng.choice(["X", "Y"])})
            if dgi and ei == dgi[0]:
                steps.append({"op": "oneshot", "id": nid(), "src": STATEFUL["gvprobe"][0], "prog": "gvprobe",
                              "mode": rng.choice("sa"), "data": data_spec()})
        elif r < 0.86:
            hid, ei = rng.choice(handles)
            same_env = [h for h, e in handles if e == ei]
            tasks = []
            big = rng.random() < 0.06    # 9-12 overlapping loads/renders (pools, semaphores, limits)
            for _ in range(rng.randint(9, 12) if big else rng.randint(2, 4)):
                tasks.append({"h": hid if rng.random() < 0.6 else rng.choice(same_env), "data": data_spec(),
                              "reget": rng.random() < (0.9 if big else 0.4)})
            st = {"op": "par", "id": nid(), "tasks": tasks}
            if rng.random() < 0.3:
                st["cancel_target"] = rng.randrange(len(tasks))
            steps.append(st)
            if big:   # and once more, on another event loop
                steps.append({"op": "par", "id": nid(), "tasks": [dict(t, data=data_spec()) for t in tasks]})
        elif r < 0.93:
            hid = rng.choice(handles)[0]
            steps.append({"op": "sweep", "id": nid(), "h": hid, "mode": rng.choice("sa"), "data": data_spec(),
                          "kind": rng.choice(["data_k", "data_k", "loader_j", "cancel_j", "reent_k"]),
                          "cap": 12 if tier == "quick" else 64})
        else:
            prog = rng.choice([p for p in STATEFUL if p not in NEEDS_PARTIALS])
            if rng.random() < 0.4:
                prog = "gvprobe"
            steps.append({"op": "oneshot", "id": nid(), "src": STATEFUL[prog][0], "prog": prog,
                          "mode": rng.choice("sa"), "data": data_spec()})
    # calling conventions (own random stream): a positional mapping, alone or with keyword arguments;
    # a follow-up render that reuses the caller's objects then passes the very same mapping again
    rng5 = random.Random(f"c09c:{seed}")
    for st in steps:
        if st["op"] == "render" and not st.get("fault") and rng5.random() < 0.2:
            st["data"] = {**st["data"], "call": rng5.choice(["pos", "poskw", "poskw"])}
        elif st["op"] == "render" and st["data"].get("reuse") and rng5.random() < 0.5:
            st["data"] = {**st["data"], "call": "pos"}
    # caller threads (own random stream: earlier plans keep their shape)
    rng4 = random.Random(f"c09t:{seed}")
    if rng4.random() < 0.3:
        for _ in range(rng4.choice([1, 2, 3])):
            ei = rng4.choice(sorted({e for _, e in handles}))
            hs = [h for h, e in handles if e == ei]
            first_render = rng4.random() < 0.5 and not envs[ei].get("default_global")
            if first_render:
                # threads meet on a template nobody has rendered yet (lazily built per-node state)
                cands = [st for st in steps if st["op"] == "parse" and st.get("h") in hs and st.get("prog") != "bad"]
                src_step = rng4.choice(cands) if cands else None
                if src_step is None:
                    first_render = False
                elif rng4.random() < 0.4:
                    # ... or on a small program parsed for the occasion
                    pr = rng4.choice(["static", "casestr", "jsonindent", "striphtml", "lamtwice", "counters", "moneytie", "time", "decimalfmt"])
                    src_step = {"op": "parse", "env": ei, "src": STATEFUL[pr][0], "prog": pr, "_new": True}
            if first_render:
                h2 = len(handles)
                pstep = {k: v for k, v in {**src_step, "id": nid(), "h": h2}.items() if k != "_new"}
                handles.append((h2, ei))
                same = h2
            else:
                same = rng4.choice(hs)
            tasks = [{"h": same if (first_render or rng4.random() < 0.6) else rng4.choice(hs),
                      "data": {**data_spec(), "seed": rng4.randrange(1 << 30)}} for _ in range(rng4.choice([2, 2, 3, 4]))]
            need = {t["h"] for t in tasks} - ({same} if first_render else set())
            lo = 1 + max([i for i, st in enumerate(steps) if st["op"] in ("parse", "get") and st.get("h") in need]
                         + [i for i, st in enumerate(steps) if first_render and st is src_step] + [0])
            for t in tasks:
                if rng4.random() < 0.3:
                    t["parse"] = True
            at = rng4.randrange(lo, len(steps) + 1)
            steps[at:at] = ([pstep] if first_render else []) + [{"op": "tpar", "id": nid(), "tasks": tasks}]
    if rng4.random() < 0.15:
        # a "storm": the same small program parsed afresh several times, each time met by 2-3 threads
        # at once - either on the one fresh Template (first-render races) or each thread parsing
        # the source itself (the environment's shared parser / lexer / filter instances)
        cand_envs = [i for i, e in enumerate(envs) if not e.get("default_global")]
        if cand_envs:
            ei = rng4.choice(cand_envs)
            pr = rng4.choice(["static", "casestr", "jsonindent", "striphtml", "lamtwice", "counters", "wsctl", "wsctl",
                              "moneytie", "decimalfmt", "decimalfmt", "time"])
            own_parse = rng4.random() < 0.45
            at = rng4.randrange(1, len(steps) + 1)
            block = []
            for _ in range(rng4.randint(3, 8)):
                h2 = len(handles)
                handles.append((h2, ei))
                block.append({"op": "parse", "id": nid(), "h": h2, "env": ei, "src": STATEFUL[pr][0], "prog": pr})
                tasks = [{"h": h2, "data": {**data_spec(), "seed": rng4.randrange(1 << 30)}, **({"parse": True} if own_parse else {})}
                         for _ in range(rng4.choice([2, 2, 3]))]
                block.append({"op": "tpar", "id": nid(), "tasks": tasks})
            steps[at:at] = block
    # bounded recovery: every handle rendered once more, unfaulted
    for hid, _ in handles:
        steps.append({"op": "render", "id": nid(), "h": hid, "mode": "s", "data": data_spec()})
    return {"property": PROP, "seed": seed, "policy": rng.choice(simsched.POLICIES), "envs": envs, "steps": steps,
            "pristine_ref": rng.random() < 0.4}


class Engine:
    id = PROP
    module = "checks.c09"

    def run_seed(self, job: dict) -> dict:
        plan = gen_plan(job["seed"], job["tier"])
        res = execute(plan)
        if res["status"] == "violation":
            plan["decisions"] = res.pop("decisions")
            plan["tdecisions"] = res.pop("tdecisions", {})
            res["plan"] = plan
        else:
            res.pop("decisions", None)
            res.pop("tdecisions", None)
        if job.get("want_sample"):
            res["sample"] = {"seed": job["seed"], "policy": plan["policy"],
                             "envs": [{k: (v if k != "partials" else sorted(v)) for k, v in e.items()} for e in plan["envs"]],
                             "steps": [{k: (v if k != "src" else v[:160]) for k, v in s.items()} for s in plan["steps"][:14]]}
        return res

    def replay(self, plan: dict) -> dict:
        return execute(plan)

    def minimise(self, v: dict, in_child) -> dict:
        from sim.minimise import minimise_ops
        return minimise_ops(self, v, in_child, ops_key="steps")


ENGINE = Engine()
