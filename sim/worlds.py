"""World construction shared by C03 and C09: environments, loaders, storage.

Everything is built from a plain (JSON-able) spec by the same code each time,
so a reference world is *constructed*, never shared, with the system world.
"""

from __future__ import annotations

import os
import sys

from . import simfs
from . import storage

HERE = os.path.dirname(os.path.dirname(os.path.abspath(__file__)))

LOADER_KINDS = ("dict", "dictp", "cdict", "cdictp", "fs", "cfs", "fs2", "cfs2", "fsx", "cfsx",
                "choice", "cchoice", "ns", "cns", "cnsf", "pkg", "nschoice")


class Catalog:
    """A gettext-style translations double: marks what it was asked for, in its language.

    A new object per render (as an application creating a catalog per request would)."""

    def __init__(self, lang: str = "T") -> None:
        self.lang = lang

    def gettext(self, message: str) -> str:
        return f"{self.lang}(" + message + ")"

    def ngettext(self, singular: str, plural: str, n: int) -> str:
        return f"{self.lang}1(" + singular + ")" if n == 1 else f"{self.lang}N(" + plural + ")"

    def pgettext(self, context: str, message: str) -> str:
        return f"{self.lang}[{context}](" + message + ")"

    def npgettext(self, context: str, singular: str, plural: str, n: int) -> str:
        return (f"{self.lang}1[{context}](" + singular + ")" if n == 1
                else f"{self.lang}N[{context}](" + plural + ")")


def make_store(kind: str, partials: dict[str, str], mtime: float, tenants=("t1",)):
    """Create storage for a loader kind and fill it with ``partials``."""
    base = kind[1:] if kind.startswith("c") and kind not in ("choice",) else kind
    if base in ("dict", "dictp"):
        st = storage.DictStore(1, parked=base.endswith("p"))
        for n, s in partials.items():
            st.write(f"d0:{n}", s)
    elif base in ("fs", "fs2", "fsx"):
        st = storage.FsStore(2 if base == "fs2" else 1, ext=".liquid" if base == "fsx" else None)
        for i, (n, s) in enumerate(partials.items()):
            locs = st.locs(n)
            st.write(locs[i % len(locs)], s, mtime)
    elif base == "choice":
        st = storage.FsStore(1, with_dict=True, parked=True)
        for i, (n, s) in enumerate(partials.items()):
            locs = st.locs(n)
            st.write(locs[i % 2], s, mtime)
    elif base in ("ns", "nsf"):
        st = storage.NsStoreWrap("tenant", "sync" if base == "nsf" else "none", matter=True)
        for n, s in partials.items():
            st.write(f"_/{n}", s)
            for t in tenants:
                st.write(f"{t}/{n}", f"[{t}]" + s)
    elif base == "nschoice":
        st = NsChoiceStore()
        for n, s in partials.items():
            st.write(f"_/{n}", s)
            for t in tenants:
                st.write(f"{t}/{n}", f"[{t}]" + s)
            dict.__setitem__(st.fallback, n, "[fallback]" + s)
    elif base == "pkg":
        st = PkgStore()
    else:
        raise ValueError(kind)
    return st


class NsChoiceStore(storage.NsStoreWrap):
    """ChoiceLoader([namespace-aware loader, dict loader]): the delegate narrows by loader kwargs."""

    kind = "nschoice"

    def __init__(self) -> None:
        super().__init__("tenant", "none", matter=False)
        self.fallback = storage.LoggingDict(self.rlog, "d0")

    def make_loader(self, caching: bool, **kw):
        from liquid2 import ChoiceLoader

        return ChoiceLoader([storage.NsLoader(self.store, self.ns_key, "none", False),
                             storage.ParkedDictLoader(self.fallback)])

    def clone(self):
        c = NsChoiceStore()
        c.store.data = dict(self.store.data)
        dict.update(c.fallback, self.fallback)
        return c


class PkgStore(storage.Store):
    """PackageLoader over the static fixture package /verif/fixtures/verif_pkg."""

    kind = "pkg"

    def make_loader(self, caching: bool, **kw):
        from liquid2 import PackageLoader

        fx = os.path.join(HERE, "fixtures")
        if fx not in sys.path:
            sys.path.insert(0, fx)
        return PackageLoader("verif_pkg", package_path="templates")

    def clone(self):
        return PkgStore()


def make_loader(kind: str, st, *, capacity: int = 300, auto_reload: bool = True, nskey: str = ""):
    caching = kind.startswith("c") and kind != "choice"
    if caching:
        if kind in ("cns", "cnsf"):
            nskey = "tenant"
        return st.make_loader(True, auto_reload=auto_reload, namespace_key=nskey, capacity=capacity)
    return st.make_loader(False)


def make_env(cfg: dict, loader, extra_globals: dict | None = None):
    """Build an Environment subclass instance from an env spec."""
    import liquid2
    from liquid2 import Environment
    from liquid2 import FalsyStrictUndefined
    from liquid2 import StrictUndefined
    from liquid2 import Undefined
    from liquid2 import WhitespaceControl
    from liquid2.shopify import Environment as ShopifyEnvironment

    base = ShopifyEnvironment if cfg.get("shopify") else Environment
    ns = {}
    for k in ("loop_iteration_limit", "output_stream_limit", "local_namespace_limit",
              "context_depth_limit", "suppress_blank_control_flow_blocks", "shorthand_indexes"):
        if cfg.get(k) is not None:
            ns[k] = cfg[k]
    cls = base   # the library's own class (picklable); limits are set on the instance below
    undefined = {"strict": StrictUndefined, "falsy": FalsyStrictUndefined}.get(cfg.get("undefined"), Undefined)
    trim = {"-": WhitespaceControl.MINUS, "~": WhitespaceControl.TILDE}.get(cfg.get("trim"), WhitespaceControl.PLUS)
    g = dict(cfg.get("globals") or {})
    if extra_globals:
        g.update(extra_globals)
    env = cls(loader=loader, globals=g, auto_escape=bool(cfg.get("auto_escape")),
              undefined=undefined, default_trim=trim)
    for k, v in ns.items():
        setattr(env, k, v)
    if cfg.get("template_class"):
        env.template_class = page_template()
    if cfg.get("lexer") == "dollar":
        env.lexer_class = dollar_lexer()
    if cfg.get("translation_filters"):
        liquid2.builtin.register_translation_filters(env, replace=True, autoescape_message=bool(cfg.get("auto_escape")))
    return env


PageTemplate = None
DollarLexer = None


def page_template():
    """An application's Template subclass (Environment.template_class): adds a render global."""
    global PageTemplate
    if PageTemplate is None:
        from liquid2 import Template
        from liquid2.utils.chainmap import ReadOnlyChainMap

        class _PageTemplate(Template):
            def make_globals(self, render_args):
                return ReadOnlyChainMap(super().make_globals(render_args), {"tclass": "PT"})

        _PageTemplate.__name__ = _PageTemplate.__qualname__ = "PageTemplate"
        _PageTemplate.__module__ = __name__
        PageTemplate = _PageTemplate
    return PageTemplate


def dollar_lexer():
    """An application's Lexer subclass (Environment.lexer_class): '$' may appear in names."""
    global DollarLexer
    if DollarLexer is None:
        from liquid2.lexer import Lexer
        from liquid2.lexer import _compile

        class _DollarLexer(Lexer):
            WORD = {"WORD": r"[\u0080-\uFFFFa-zA-Z_$][\u0080-\uFFFFa-zA-Z0-9_$-]*"}
            TOKEN_RULES = _compile(Lexer.NUMBERS, Lexer.SYMBOLS, WORD)

        _DollarLexer.__name__ = _DollarLexer.__qualname__ = "DollarLexer"
        _DollarLexer.__module__ = __name__
        DollarLexer = _DollarLexer
    return DollarLexer


def activate(st) -> None:
    if hasattr(st, "fs"):
        simfs.activate(st.fs)
