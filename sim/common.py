"""Shared helpers: outcome canonicalisation, child setup, sync/async execution."""

from __future__ import annotations

import asyncio
import errno
import os
import re
import sys
import warnings

from . import clock as simclock
from . import sched
from . import simfs
from .drops import InjectedFault
from .loop import Deadlock
from .loop import SimLoop
from .loop import StepCap


_ADDR = re.compile(r" at 0x[0-9a-fA-F]+")


def norm(o):
    """Normalise an outcome for comparison: memory addresses in default reprs
    (``<... object at 0x7f..>``) differ between any two executions."""
    if isinstance(o, str):
        return _ADDR.sub(" at 0x?", o) if " at 0x" in o else o
    if isinstance(o, tuple):
        return tuple(norm(x) for x in o)
    if isinstance(o, list):
        return [norm(x) for x in o]
    if isinstance(o, dict):
        return {k: norm(v) for k, v in o.items()}
    return o


class Inconclusive(Exception):
    """The run cannot be judged (RecursionError, step cap): discard, count."""


def repo_root() -> str:
    return os.environ.get("VERIF_REPO", "/repo")


def setup_child() -> None:
    """Called first in every simulated run (inside the forked child)."""
    warnings.simplefilter("ignore")
    sys.setrecursionlimit(6000)
    import liquid2  # noqa: F401

    root = os.path.realpath(repo_root())
    got = os.path.realpath(liquid2.__file__)
    if not got.startswith(root + os.sep):
        raise RuntimeError(f"liquid2 imported from {got}, expected under {root}")
    simclock.install(simclock.SimClock())
    simfs.install()


def canon_exc(exc: BaseException) -> tuple:
    """Canonical error outcome: class (+ location for LiquidError)."""
    from liquid2.exceptions import LiquidError

    if isinstance(exc, RecursionError):
        raise Inconclusive("RecursionError")
    if isinstance(exc, (StepCap,)):
        raise Inconclusive("step cap")
    if isinstance(exc, LiquidError):
        tok = getattr(exc, "token", None)
        start = getattr(tok, "start", None) if tok is not None else None
        return ("err", type(exc).__name__, str(exc.template_name or ""), start)
    if isinstance(exc, OSError):
        code = exc.errno
        name = errno.errorcode.get(code, str(code)) if code is not None else "?"
        return ("err", f"OSError:{name}", "", None)
    if isinstance(exc, InjectedFault):
        return ("err", "InjectedFault", str(exc), None)
    if isinstance(exc, asyncio.CancelledError):
        return ("err", "CancelledError", "", None)
    if isinstance(exc, Deadlock):
        return ("err", "Deadlock", "", None)
    return ("err", "PY:" + type(exc).__name__, "", None)


def canon_call(fn, *args, **kwargs) -> tuple:
    try:
        return ("ok", norm(fn(*args, **kwargs)))
    except Inconclusive:
        raise
    except BaseException as exc:  # noqa: BLE001
        if isinstance(exc, (SystemExit, KeyboardInterrupt)):
            raise
        return canon_exc(exc)


class Segments:
    """Scheduler factory for the SimLoop segments of one run.

    A run may start several SimLoops (one per async op or batch).  Segment *i*
    uses policy ``policy`` seeded by (seed, i), or recorded decisions on replay.
    All decisions are kept for the replay file.
    """

    def __init__(self, seed: int, policy: str, recorded: dict | None = None,
                 step_cap: int = 20000) -> None:
        self.seed = seed
        self.policy = policy
        self.recorded = recorded
        self.step_cap = step_cap
        self.n = 0
        self.decisions: dict[str, list[int]] = {}
        self.raw: dict[str, list[tuple[int, int]]] = {}
        self.labels: dict[str, list[str]] = {}
        self.total_decisions = 0
        self.overlap = 0
        self.parks = 0
        self.jobs = 0
        self.max_parked = 0
        self.loops: list[SimLoop] = []

    def new_loop(self, on_decision=None, sid: str | None = None) -> SimLoop:
        if sid is None:
            sid = str(self.n)
        self.n += 1
        if self.recorded is not None:
            s = sched.Replay(self.recorded.get(sid, []))
        else:
            s = sched.make(self.policy, f"{self.seed}:{sid}")
        loop = SimLoop(s, step_cap=self.step_cap)
        loop.on_decision = on_decision
        loop._sid = sid  # type: ignore[attr-defined]
        self.loops.append(loop)
        return loop

    def finish(self, loop: SimLoop) -> None:
        sid = loop._sid  # type: ignore[attr-defined]
        self.decisions[sid] = [d[0] for d in loop.decisions]
        self.raw[sid] = list(loop.decisions)
        self.labels[sid] = list(loop.labels)
        self.total_decisions += len(loop.decisions)
        self.overlap += loop.overlap_decisions
        self.parks += loop.parks_total
        self.jobs += loop.jobs_total
        self.max_parked = max(self.max_parked, loop.max_parked)

    def run(self, coro, on_decision=None, sid: str | None = None):
        loop = self.new_loop(on_decision, sid)
        try:
            return loop.run_until_complete(coro)
        finally:
            self.finish(loop)
            _drain(loop)


def _drain(loop: SimLoop) -> None:
    """Cancel whatever is left on a finished loop so nothing leaks warnings."""
    for p in loop._parked:
        if not p.fut.done():
            p.fut.cancel()
    loop._parked.clear()
    for t in asyncio.all_tasks(loop):
        if not t.done():
            t.cancel()
    for _ in range(50):
        if not loop._ready:
            break
        for _ in range(len(loop._ready)):
            h = loop._ready.popleft()
            if not h._cancelled:
                try:
                    h._run()
                except BaseException:  # noqa: BLE001
                    pass
    for t in asyncio.all_tasks(loop):
        if t.done() and not t.cancelled():
            t.exception()
