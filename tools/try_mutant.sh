#!/bin/bash
# usage: tools/try_mutant.sh <patch-file> <check-id> [extra check args]
# Applies a patch to a scratch copy of /repo (under /dev/shm), runs the check against it, removes the copy.
set -u
P=$(realpath "$1"); ID=$2; shift 2
D=$(mktemp -d /dev/shm/mut.XXXXXX)
rsync -a --exclude .git --exclude tests --exclude docs /repo/ "$D/"
if ! (cd "$D" && patch -p1 -s < "$P"); then echo "PATCH FAILED"; rm -rf "$D"; exit 3; fi
VERIF_REPO="$D" /verif/check "$ID" --no-evidence "$@" 2>&1 | grep -E "VIOLATION|sig=|KNOWN|HARNESS|runs=" | head -8
rc=${PIPESTATUS[0]}
rm -rf "$D"
exit $rc
