"""ThreadSim: real caller threads whose interleaving the simulator decides.

The library's synchronous API is called from k real ``threading.Thread``s, but only
the thread holding the *baton* ever runs; every other thread is parked on a
condition variable.  Pre-emption points are ``sys.settrace`` line events inside the
library's own source files: after a seeded number of line events (its quantum) the
running thread hands the baton to a thread chosen by the seeded generator.  The only
real synchronisation primitive the library uses (``threading.Lock`` in
``liquid2.utils.lru_cache``) is replaced by ``SimLock``: a thread that finds the
lock taken gives the baton away instead of blocking the process, so pre-emption
inside a critical section is safe and a lost wake-up or a lock-order deadlock shows
as a step-cap overrun, not as a hang.

One seed -> one sequence of (thread, quantum) decisions -> one interleaving; the
decisions are recorded and can be replayed.
"""

from __future__ import annotations

import math
import sys
import threading

from .common import Inconclusive

WAIT_S = 20.0
MAX_SWITCHES = 4000


class ThreadSim:
    def __init__(self, rng, prefixes: tuple[str, ...], quantum=(1, 80), decisions: list | None = None,
                 on_switch=None, atomic=None, hot: tuple[str, ...] = (), hot_weight: int = 10) -> None:
        self.hot = hot                 # file-name suffixes where simulated time runs faster, so that
        self.hot_weight = hot_weight   # switches concentrate in code that handles shared state
        self.hot_p = 0.12              # ... and where any line may be a switch point outright
        import random as _random
        self.rng_hot = _random.Random(rng.random())   # own stream: replayed decisions keep it aligned
        self.on_switch = on_switch     # called by the baton holder at every scheduling decision
        self.atomic = atomic           # () -> bool: harness code that must not be pre-empted is running
        self.names: list[str] = []
        self.rng = rng
        self.prefixes = prefixes
        self.quantum = quantum
        self.cv = threading.Condition()
        self.current: int | None = None
        self.done: list[bool] = []
        self.budget: list[int] = []
        self.abort = False
        self.capped = False
        self.switches = 0
        self.preemptions = 0
        self.lock_yields = 0
        self.line_events = 0
        self.tls = threading.local()
        self.replay = list(decisions) if decisions else None
        self.decisions: list[list[int]] = []

    # -------------------------------------------------------- decisions
    def _decide(self, candidates: list[int]) -> tuple[int, int]:
        if self.replay:
            j, q = self.replay.pop(0)
            if j not in candidates:
                j = candidates[0]
        else:
            cur = self.current
            others = [c for c in candidates if c != cur]
            # prefer a real switch; staying is a legal decision too
            pool = others if (others and self.rng.random() < 0.75) else candidates
            j = pool[self.rng.randrange(len(pool))]
            lo, hi = self.quantum
            # log-uniform quanta between lo and 40*hi line events: every scale is sampled, from
            # "switch on the very next line" to "run (almost) to completion" - a narrow window in
            # one thread needs the OTHER thread to get far enough before the first one resumes
            q = int(math.exp(self.rng.uniform(math.log(lo), math.log(hi * 40))))
        self.decisions.append([j, q])
        return j, q

    # ------------------------------------------------------------ baton
    def _wait_for_baton(self, i: int) -> None:
        with self.cv:
            while self.current != i and not self.abort:
                if not self.cv.wait(WAIT_S):
                    self.abort = True
                    self.cv.notify_all()

    def _hand_over(self, i: int, *, finished: bool = False) -> None:
        """Thread ``i`` (the baton holder) lets the scheduler choose who runs next."""
        if self.abort:
            return
        cands = [j for j in range(len(self.done)) if not self.done[j]]
        if not cands:
            with self.cv:
                self.current = None
                self.cv.notify_all()
            return
        self.switches += 1
        if self.switches > MAX_SWITCHES and not finished:
            # enough pre-emption for one batch: from here on threads run until they finish or
            # meet a taken lock (still a legal schedule, so the results are judged as usual)
            self.budget[i] = 1 << 60
            self.capped = True
            return
        if self.on_switch is not None and LOCKS_HELD[0] == 0:
            self.on_switch()
        j, q = self._decide(cands)
        self.budget[j] = q if not self.capped else 1 << 60
        if j == i:
            return
        self.preemptions += 0 if finished else 1
        with self.cv:
            self.current = j
            self.cv.notify_all()
        if not finished:
            self._wait_for_baton(i)

    def yield_from_lock(self) -> None:
        """Called by SimLock.acquire when the lock is taken: let somebody else run."""
        i = getattr(self.tls, "idx", None)
        if i is None or self.abort:
            return
        self.lock_yields += 1
        cands = [j for j in range(len(self.done)) if not self.done[j] and j != i]
        if not cands:
            self.abort = True     # everybody else is finished and the lock is still held: deadlock
            return
        self.switches += 1
        if self.switches > MAX_SWITCHES * 5:
            self.abort = True     # threads keep finding the lock taken: livelock
            return
        j, q = self._decide(cands)
        self.budget[j] = q if not self.capped else 1 << 60
        with self.cv:
            self.current = j
            self.cv.notify_all()
        self._wait_for_baton(i)

    # ------------------------------------------------------------ trace
    def _make_tracer(self, i: int):
        prefixes = self.prefixes
        hot, hw = self.hot, self.hot_weight

        def local(frame, event, arg):
            if event == "line":
                self.line_events += 1
                if hot and frame.f_code.co_filename.endswith(hot):
                    self.budget[i] -= hw
                    if self.rng_hot.random() < self.hot_p:
                        self.budget[i] = 0
                else:
                    self.budget[i] -= 1
                if self.budget[i] <= 0 and not self.abort and not (self.atomic is not None and self.atomic()):
                    self._hand_over(i)
            return local

        def glob(frame, event, arg):
            if event == "call" and frame.f_code.co_filename.startswith(prefixes):
                return local
            return None

        return glob

    # -------------------------------------------------------------- run
    def run(self, fns: list, names: list[str] | None = None) -> list[tuple]:
        n = len(fns)
        self.names = list(names) if names else [f"T{i}" for i in range(n)]
        self.done = [False] * n
        self.budget = [1] * n
        results: list[tuple | None] = [None] * n

        def body(i: int) -> None:
            self.tls.idx = i
            self._wait_for_baton(i)
            sys.settrace(self._make_tracer(i))
            try:
                try:
                    results[i] = ("ok", fns[i]())
                except BaseException as exc:  # noqa: BLE001
                    results[i] = ("exc", exc)
            finally:
                sys.settrace(None)
                self.done[i] = True
                self._hand_over(i, finished=True)

        global ACTIVE
        ACTIVE = self
        threads = [threading.Thread(target=body, args=(i,), name=f"simthread-{i}", daemon=True) for i in range(n)]
        try:
            for t in threads:
                t.start()
            j, q = self._decide(list(range(n)))
            self.budget[j] = q
            with self.cv:
                self.current = j
                self.cv.notify_all()
            for t in threads:
                t.join(WAIT_S * 2)
                if t.is_alive():
                    self.abort = True
                    with self.cv:
                        self.cv.notify_all()
        finally:
            ACTIVE = None
        if self.abort or any(r is None for r in results):
            raise Inconclusive("thread_sim_aborted")
        return results  # type: ignore[return-value]


ACTIVE: ThreadSim | None = None
LOCKS_HELD = [0]


def current_name() -> str | None:
    """Name of the simulated thread that is running, if a thread simulation is active."""
    sim = ACTIVE
    if sim is None:
        return None
    i = getattr(sim.tls, "idx", None)
    return sim.names[i] if i is not None and i < len(sim.names) else None


class SimLock:
    """Drop-in for ``threading.Lock`` whose contention is resolved by the simulator."""

    def __init__(self) -> None:
        self.held = False

    def acquire(self, blocking: bool = True, timeout: float = -1) -> bool:
        while self.held:
            sim = ACTIVE
            if not blocking:
                return False
            if sim is None or getattr(sim.tls, "idx", None) is None or sim.abort:
                raise RuntimeError("SimLock: acquiring a held lock with nobody to run (deadlock)")
            sim.yield_from_lock()
        self.held = True
        LOCKS_HELD[0] += 1
        return True

    def release(self) -> None:
        if not self.held:
            raise RuntimeError("release unlocked lock")
        self.held = False
        LOCKS_HELD[0] -= 1

    def locked(self) -> bool:
        return self.held

    def __enter__(self):
        self.acquire()
        return self

    def __exit__(self, *a) -> None:
        self.release()


class SimRLock(SimLock):
    """Re-entrant variant (``threading.RLock``): the owning simulated thread may re-acquire."""

    def __init__(self) -> None:
        super().__init__()
        self.owner = None
        self.depth = 0

    def _me(self):
        sim = ACTIVE
        i = getattr(sim.tls, "idx", None) if sim is not None else None
        return ("sim", i) if i is not None else ("real", threading.get_ident())

    def acquire(self, blocking: bool = True, timeout: float = -1) -> bool:
        me = self._me()
        if self.held and self.owner == me:
            self.depth += 1
            return True
        if not super().acquire(blocking, timeout):
            return False
        self.owner, self.depth = me, 1
        return True

    def release(self) -> None:
        if not self.held or self.owner != self._me():
            raise RuntimeError("cannot release un-acquired lock")
        self.depth -= 1
        if self.depth == 0:
            self.owner = None
            super().release()


def install_lock() -> None:
    """Replace the lock primitives the library's modules imported by name (called in the run's
    child): every attribute of a loaded ``liquid2.*`` module that IS ``threading.Lock`` / ``RLock``."""
    import liquid2.utils.lru_cache  # noqa: F401

    for name, mod in list(sys.modules.items()):
        if mod is None or not name.startswith("liquid2"):
            continue
        d = getattr(mod, "__dict__", {})
        for k, v in list(d.items()):
            if v is threading.Lock:
                d[k] = SimLock
            elif v is threading.RLock:
                d[k] = SimRLock
