#!/bin/bash
# usage: tools/ingest_mutant.sh <dir with patch.diff demo.py meta.json> <seeded-id>
# Confirms (in a fresh scratch worktree): patch applies, full test-suite passes with it, demo fails with it and passes without.
set -u
SRC=$(realpath "$1"); ID=$2
WT=/tmp/mv_$$
git -C /repo worktree add -q --detach "$WT" HEAD || exit 3
cleanup(){ git -C /repo worktree remove --force "$WT" >/dev/null 2>&1; }
trap cleanup EXIT
cd "$WT"
PYTHONPATH=$WT timeout 120 /venv/bin/python "$SRC/demo.py" >/dev/null 2>&1; clean_rc=$?
git apply "$SRC/patch.diff" || { echo "$ID: PATCH DOES NOT APPLY"; exit 3; }
touched=$(git diff --name-only | tr '\n' ' ')
PYTHONPATH=$WT timeout 900 /venv/bin/python -m pytest -q -p no:cacheprovider -n 8 2>&1 | tail -1 > /tmp/ingest_$$.txt
suite=$(cat /tmp/ingest_$$.txt); rm -f /tmp/ingest_$$.txt
PYTHONPATH=$WT timeout 120 /venv/bin/python "$SRC/demo.py" >/dev/null 2>&1; mut_rc=$?
echo "$ID: suite=[$suite] demo_clean_rc=$clean_rc demo_mutant_rc=$mut_rc touched=$touched"
if echo "$suite" | grep -q "failed\|error" || [ $clean_rc -ne 0 ] || [ $mut_rc -eq 0 ]; then echo "$ID: REJECTED"; exit 1; fi
mkdir -p /verif/seeded/$ID
cp "$SRC/patch.diff" "$SRC/demo.py" /verif/seeded/$ID/
/venv/bin/python - "$SRC/meta.json" "/verif/seeded/$ID/meta.json" "$suite" "$clean_rc" "$mut_rc" "$touched" <<'P'
import json,sys
try: m=json.load(open(sys.argv[1]))
except Exception: m={}
m["confirmed"]={"suite_with_patch":sys.argv[3],"demo_rc_clean":int(sys.argv[4]),"demo_rc_with_patch":int(sys.argv[5]),"files_touched":sys.argv[6].split(),
 "how":"fresh scratch worktree of /repo HEAD: git apply patch.diff; pytest -q -n 8 (whole suite); demo.py with and without the patch; worktree removed"}
json.dump(m,open(sys.argv[2],"w"),indent=1)
P
echo "$ID: KEPT"
