#!/bin/bash
# usage: tools/try_rev.sh <git-rev-of-/repo> <check-id> [extra args]  -- run a check against an older revision
set -u
REV=$1; ID=$2; shift 2
D=$(mktemp -d /dev/shm/rev.XXXXXX)
git -C /repo archive "$REV" liquid2 tests/liquid2-compliance-test-suite/cts.json | tar -x -C "$D"
VERIF_REPO="$D" /verif/check "$ID" --no-evidence "$@" 2>&1 | grep -E "VIOLATION|sig=|KNOWN|HARNESS|runs=" | head -12
rm -rf "$D"
