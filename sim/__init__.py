"""Deterministic simulator for python-liquid2 (see /verif/DESIGN.md)."""
