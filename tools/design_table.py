#!/venv/bin/python
"""Regenerate the seeded-changes table in DESIGN.md (between the markers) from seeded/RESULTS.json."""
import json, os, re
HERE = os.path.dirname(os.path.dirname(os.path.abspath(__file__)))
res = json.load(open(os.path.join(HERE, "seeded", "RESULTS.json")))
rows = ["| id | prop. | what the change does (sub-agent's words, shortened) | detected by the quick check (violating runs / runs) | signatures reported |", "|---|---|---|---|---|"]
nd = 0
nd_other = []
for sid in sorted(res):
    r = res[sid]
    if "error" in r:
        rows.append(f"| {sid} | {r['property']} | - | {r['error'][:80]} | |")
        continue
    s = re.sub(r"\s+", " ", r.get("summary", "")).replace("|", "/")[:170]
    sigs = ", ".join(f"{k.split(':', 1)[1]}x{v}" for k, v in sorted(r.get("reported_sigs", {}).items()))
    try:
        meta = json.load(open(os.path.join(HERE, "seeded", sid, "meta.json")))
    except Exception:
        meta = {}
    also = "; ".join(f"by {k}: {v}" for k, v in (meta.get("also_detected_by") or {}).items())
    if r["exit"] == 1:
        det = f"yes, {r['violating_runs']}/{r['runs']}" + (f" ({also})" if also else "")
        nd += 1
    else:
        det = "**no** (see note)" + (f"; {also}" if also else "")
        if also:
            nd_other.append(sid)
    rows.append(f"| {sid} | {r['property']} | {s} | {det} | {sigs} |")
table = "\n".join(rows) + (f"\n\n{nd} of {len(res)} seeded changes are detected by the quick tier of the check of their property"
                             + (f"; {len(nd_other)} more ({', '.join(nd_other)}) by the check of another property" if nd_other else "") + ".\n")
p = os.path.join(HERE, "DESIGN.md")
s = open(p).read()
if "SEEDED_TABLE_PLACEHOLDER" in s:
    s = s.replace("SEEDED_TABLE_PLACEHOLDER", "<!-- seeded-table-begin -->\n" + table + "<!-- seeded-table-end -->")
else:
    s = re.sub(r"<!-- seeded-table-begin -->.*?<!-- seeded-table-end -->", lambda m: "<!-- seeded-table-begin -->\n" + table + "<!-- seeded-table-end -->", s, flags=re.S)
open(p, "w").write(s)
print(nd, "of", len(res))
