#!/bin/bash
# usage: tools/run_benign.sh <benign-id> [runs]   -- a property-preserving change must not raise any alarm in any check
ID=$1; N=${2:-10000}
D=$(mktemp -d /dev/shm/ben.XXXXXX)
rsync -a --exclude .git --exclude docs --exclude performance /repo/ "$D/"
if ! (cd "$D" && patch -p1 -s < /verif/benign/$ID/patch.diff); then echo "$ID PATCH FAILED"; rm -rf "$D"; exit 3; fi
for CK in C03 C09 C14; do
  out=$(VERIF_REPO="$D" /verif/check $CK --no-evidence --runs $N 2>&1); rc=$?
  echo "$ID x $CK: rc=$rc $(echo "$out" | grep -c '^VIOLATION') alarms; $(echo "$out" | grep -o 'sig=[^ ]*' | sort | uniq -c | tr '\n' ' ') $(echo "$out" | grep 'runs=' | sed 's/.*runs=/runs=/' | cut -c1-70)"
done
rm -rf "$D"
