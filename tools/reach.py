#!/venv/bin/python
"""Reach of the simulated workloads inside the library: which lines of liquid2 (and in
particular of its `async def` functions) are executed by N seeded runs of an engine.
Runs in ONE process (no fork) under coverage.py.  usage: tools/reach.py C03 400"""
import ast, json, os, sys
os.environ.setdefault("TZ", "UTC")
HERE = os.path.dirname(os.path.dirname(os.path.abspath(__file__)))
sys.path.insert(0, os.environ.get("VERIF_REPO", "/repo")); sys.path.insert(0, HERE)
import coverage
eng_id, n = sys.argv[1], int(sys.argv[2])
cov = coverage.Coverage(source=["liquid2"], data_file=None, branch=False)
cov.start()
import importlib
eng = importlib.import_module({"C03": "checks.c03", "C09": "checks.c09", "C14": "checks.c14"}[eng_id])
from sim import runner
st = {}
for i in range(n):
    seed = runner.derive_seed(4242, i)
    plan = eng.gen_plan(seed, "quick")
    if eng_id == "C09":
        plan["pristine_ref"] = False
    try:
        r = eng.execute(plan)
        st[r["status"]] = st.get(r["status"], 0) + 1
    except Exception as e:
        st["exc:" + type(e).__name__] = st.get("exc:" + type(e).__name__, 0) + 1
cov.stop()
data = cov.get_data()
root = os.path.join(os.environ.get("VERIF_REPO", "/repo"), "liquid2")
tot_async = hit_async = 0
report = []
for dp, _, fs in os.walk(root):
    for f in fs:
        if not f.endswith(".py"): continue
        p = os.path.join(dp, f)
        src = open(p).read()
        tree = ast.parse(src)
        executed = set(data.lines(p) or [])
        for node in ast.walk(tree):
            if isinstance(node, ast.AsyncFunctionDef):
                body_lines = set()
                body = node.body
                if body and isinstance(body[0], ast.Expr) and isinstance(getattr(body[0], "value", None), ast.Constant) \
                        and isinstance(body[0].value.value, str):
                    body = body[1:]
                for st_ in body:
                    for sub in ast.walk(st_):
                        if hasattr(sub, "lineno") and isinstance(sub, ast.stmt):
                            body_lines.add(sub.lineno)
                # skip docstring-only
                if not body_lines: continue
                hit = body_lines & executed
                tot_async += len(body_lines); hit_async += len(hit)
                miss = sorted(body_lines - executed)
                if miss:
                    report.append((os.path.relpath(p, root), node.name, len(hit), len(body_lines), miss[:12]))
print("status", st)
print(f"async-function statements executed: {hit_async}/{tot_async} = {hit_async/tot_async:.1%}")
ANCHORS = {
    "C14": ["builtin/loaders/mixins.py", "utils/lru_cache.py", "builtin/loaders/file_system_loader.py",
            "builtin/loaders/caching_file_system_loader.py", "builtin/loaders/dict_loader.py",
            "builtin/loaders/choice_loader.py", "loader.py"],
    "C09": ["template.py", "context.py", "environment.py", "builtin/filters/misc.py", "builtin/tags/extends_tag.py",
            "builtin/tags/translate_tag.py", "builtin/tags/macro_tag.py", "builtin/tags/cycle_tag.py",
            "builtin/tags/for_tag.py", "builtin/loaders/mixins.py", "__init__.py"],
    "C03": ["template.py", "ast.py", "loader.py", "builtin/loaders/mixins.py", "context.py", "static_analysis.py",
            "shopify/tags/tablerow_tag.py", "builtin/tags/if_tag.py", "builtin/tags/for_tag.py",
            "builtin/tags/include_tag.py", "builtin/tags/render_tag.py", "builtin/tags/extends_tag.py"],
}
anchor = {}
for rel in ANCHORS.get(eng_id, []):
    try:
        an = cov.analysis2(os.path.join(root, rel))
        anchor[rel] = [len(an[1]) - len(an[3]), len(an[1])]
    except Exception:
        pass
print("REACH-JSON " + json.dumps({"runs": n, "anchor_file_statements_executed_of_total": anchor,
                                  "async_function_statements_executed": hit_async,
                                  "async_function_statements_total": tot_async,
                                  "not_reached": [f"{r[0]}:{r[1]}:{r[4]}" for r in sorted(report, key=lambda x: -(x[3]-x[2]))][:12]}))
for r in sorted(report, key=lambda x: -(x[3]-x[2])):
    print(f"  {r[0]}:{r[1]}  {r[2]}/{r[3]}  missing lines {r[4]}")
# per-file statement reach for the files the property is anchored in
import coverage.report
print("\nper-file executed/total statements (files of interest):")
for dp, _, fs in os.walk(root):
    for f in sorted(fs):
        if not f.endswith(".py"): continue
        p = os.path.join(dp, f)
        rel = os.path.relpath(p, root)
        if not any(k in rel for k in ("loaders/", "lru_cache", "loader.py", "template.py", "context.py", "environment.py", "tags/", "static_analysis", "filters/babel", "filters/misc")):
            continue
        try:
            an = cov.analysis2(p)
        except Exception:
            continue
        stmts, missing = an[1], an[3]
        if stmts:
            print(f"  {rel:45s} {len(stmts)-len(missing):4d}/{len(stmts):4d}  missing {missing[:14]}")
