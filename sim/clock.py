"""SimClock: the only wall clock the library sees during a simulated run.

``install()`` rebinds the name ``datetime`` (module) and any directly imported
``datetime``/``date`` classes in every loaded ``liquid2.*`` module and in
``babel.dates`` to a shim whose ``now()``/``today()``/``utcnow()`` read the
simulated clock, and replaces ``time.time``/``time_ns``/``monotonic``.  The shim
classes subclass the real ones and use a metaclass ``__instancecheck__`` so
``isinstance(x, datetime.datetime)`` still accepts values built elsewhere
(dateutil, user data).
"""

from __future__ import annotations

import datetime as _real
import sys
import time as _time
import types

EPOCH0 = 1_700_000_000.0  # 2023-11-14T22:13:20Z


class SimClock:
    def __init__(self, start: float = EPOCH0) -> None:
        self.now = float(start)
        self.reads = 0
        self.advanced = 0.0
        self.backwards = 0
        self.midnights = 0

    def advance(self, dt: float) -> None:
        before = int(self.now // 86400)
        self.now += dt
        if dt < 0:
            self.backwards += 1
        self.advanced += abs(dt)
        if int(self.now // 86400) != before:
            self.midnights += 1

    def read(self) -> float:
        self.reads += 1
        return self.now


CLOCK = SimClock()


class _Meta(type):
    def __instancecheck__(cls, obj) -> bool:
        return isinstance(obj, cls._real_base)

    def __subclasscheck__(cls, sub) -> bool:
        return issubclass(sub, cls._real_base)


class SimDateTime(_real.datetime, metaclass=_Meta):
    _real_base = _real.datetime

    @classmethod
    def now(cls, tz=None):
        return _real.datetime.fromtimestamp(CLOCK.read(), tz)

    @classmethod
    def utcnow(cls):
        return _real.datetime.fromtimestamp(CLOCK.read(), _real.timezone.utc).replace(
            tzinfo=None
        )

    @classmethod
    def today(cls):
        return _real.datetime.fromtimestamp(CLOCK.read())


class SimDate(_real.date, metaclass=_Meta):
    _real_base = _real.date

    @classmethod
    def today(cls):
        return _real.datetime.fromtimestamp(CLOCK.read()).date()


class _ShimModule(types.ModuleType):
    def __getattr__(self, name):
        return getattr(_real, name)


SHIM = _ShimModule("datetime")
SHIM.datetime = SimDateTime
SHIM.date = SimDate

_installed = False


def install(clock: SimClock | None = None) -> SimClock:
    """Route every clock read of liquid2 / babel.dates to the simulated clock."""
    global CLOCK, _installed
    if clock is not None:
        CLOCK = clock
    import babel.dates  # noqa: F401
    import dateutil.parser  # noqa: F401  (its default for missing date fields is "today")

    for modname, mod in list(sys.modules.items()):
        if mod is None:
            continue
        if not (modname == "babel.dates" or modname.startswith("liquid2") or modname.startswith("dateutil.parser")):
            continue
        d = getattr(mod, "__dict__", None)
        if d is None:
            continue
        for k, v in list(d.items()):
            if v is _real:
                d[k] = SHIM
            elif v is _real.datetime:
                d[k] = SimDateTime
            elif v is _real.date:
                d[k] = SimDate
    _time.time = lambda: CLOCK.read()
    _time.time_ns = lambda: int(CLOCK.read() * 1e9)
    _time.monotonic = lambda: CLOCK.read()
    _installed = True
    return CLOCK


def real_utc(ts: float) -> _real.datetime:
    """The *real* datetime for a simulated timestamp (for closed-form oracles)."""
    return _real.datetime.fromtimestamp(ts)
