"""SimFS: an in-memory file tree under the virtual root ``/simfs``.

``install()`` wraps ``pathlib.Path.stat`` and ``pathlib.Path.open`` (``exists``,
``is_file`` and ``read_text`` are built on them in CPython 3.12) and dispatches
on the path prefix; real paths are untouched.  Files carry ``(content, mtime)``;
every stat/open is logged with the current task so a model can *follow* what
storage was actually read.  Faults: EIO on every call while ``unavailable`` is
set, ENOENT for deleted files.
"""

from __future__ import annotations

import asyncio
import errno
import io
import os
import pathlib
import stat as _stat

ROOT = "/simfs"


class _Stat:
    __slots__ = ("st_mode", "st_mtime", "st_size", "st_mtime_ns")

    def __init__(self, mode: int, mtime: float, size: int) -> None:
        self.st_mode = mode
        self.st_mtime = mtime
        self.st_size = size
        self.st_mtime_ns = int(mtime * 1e9)


from .loop import task_name as _task_name  # noqa: E402


class SimFS:
    def __init__(self) -> None:
        self.files: dict[str, tuple[str, float]] = {}
        self.dirs: set[str] = {ROOT}
        self.unavailable = False
        self.log: list[tuple[str, str, str, str]] = []  # (task, op, path, result)
        self.eio_fired = 0
        self.enoent_fired = 0
        self.enotdir_fired = 0
        self.fds: dict[int, str] = {}
        self.next_fd = 1_000_000
        self.encoding = "utf-8"   # codec of the stored bytes
        self.opens = 0
        self.stats = 0
        self.rlog = None  # optional storage.ReadLog: content reads per task
        self.cwd: str | None = None   # simulated working directory (relative search paths "simrel*")
        self.links: dict[str, float] = {}   # paths that are symbolic links -> the link's own mtime
        self.lstats = 0

    # ------------------------------------------------------------ mutation
    def mkdir(self, path: str) -> None:
        parts = path.split("/")
        for i in range(2, len(parts) + 1):
            self.dirs.add("/".join(parts[:i]))

    def write(self, path: str, content: str, mtime: float) -> None:
        self.mkdir(path.rsplit("/", 1)[0])
        self.files[path] = (content, mtime)

    def delete(self, path: str) -> None:
        self.files.pop(path, None)
        self.links.pop(path, None)
        if path in self.dirs and not any(d.startswith(path + "/") for d in self.dirs) \
                and not any(f.startswith(path + "/") for f in self.files):
            self.dirs.discard(path)   # an (empty) directory that had replaced the file

    def clone(self) -> "SimFS":
        c = SimFS()
        c.files = dict(self.files)
        c.dirs = set(self.dirs)
        c.links = dict(self.links)
        c.cwd = self.cwd
        c.encoding = self.encoding
        return c

    # ------------------------------------------------------------- access
    def _blocked(self, path: str) -> bool:
        """A proper ancestor of ``path`` is a regular file (a directory replaced by a file)."""
        parts = path.split("/")
        for i in range(3, len(parts)):
            if "/".join(parts[:i]) in self.files:
                return True
        return False

    def _stat(self, path: str, follow: bool = True) -> _Stat:
        self.stats += 1
        if not follow:
            self.lstats += 1
        if self.rlog is not None:
            self.rlog.check_available(path)
        if not self.unavailable and self._blocked(path):
            self.enotdir_fired += 1
            self.log.append((_task_name(), "stat", path, "ENOTDIR"))
            raise NotADirectoryError(errno.ENOTDIR, os.strerror(errno.ENOTDIR), path)
        if self.unavailable:
            self.eio_fired += 1
            self.log.append((_task_name(), "stat", path, "EIO"))
            raise OSError(errno.EIO, "simulated I/O error", path)
        f = self.files.get(path)
        if f is not None:
            self.log.append((_task_name(), "stat", path, "ok"))
            if not follow and path in self.links:
                # lstat of a symbolic link: the link's own inode, not the file it points to
                return _Stat(_stat.S_IFLNK | 0o777, self.links[path], 9)
            return _Stat(_stat.S_IFREG | 0o644, f[1], len(f[0]))
        if path in self.dirs:
            self.log.append((_task_name(), "stat", path, "dir"))
            return _Stat(_stat.S_IFDIR | 0o755, 0.0, 0)
        self.enoent_fired += 1
        self.log.append((_task_name(), "stat", path, "ENOENT"))
        raise FileNotFoundError(errno.ENOENT, os.strerror(errno.ENOENT), path)

    def _open(self, path: str, encoding: str | None = None, errors: str | None = None) -> io.StringIO:
        self.opens += 1
        if self.rlog is not None:
            self.rlog.check_available(path)
        if not self.unavailable and self._blocked(path):
            self.enotdir_fired += 1
            self.log.append((_task_name(), "open", path, "ENOTDIR"))
            if self.rlog is not None:
                self.rlog.fail()
            raise NotADirectoryError(errno.ENOTDIR, os.strerror(errno.ENOTDIR), path)
        if self.unavailable:
            self.eio_fired += 1
            self.log.append((_task_name(), "open", path, "EIO"))
            raise OSError(errno.EIO, "simulated I/O error", path)
        f = self.files.get(path)
        if f is None:
            self.enoent_fired += 1
            self.log.append((_task_name(), "open", path, "ENOENT"))
            if self.rlog is not None:
                self.rlog.fail()
            if path in self.dirs:
                raise IsADirectoryError(errno.EISDIR, os.strerror(errno.EISDIR), path)
            raise FileNotFoundError(errno.ENOENT, os.strerror(errno.ENOENT), path)
        self.log.append((_task_name(), "open", path, "ok"))
        if self.rlog is not None:
            self.rlog.ok()
        text = f[0]
        stored = self.encoding or "utf-8"
        want = (encoding or "utf-8").lower().replace("_", "-")
        if want != stored:
            # the bytes on "disk" are text.encode(stored); a reader using another codec sees
            # mojibake or fails, exactly like a real file
            text = text.encode(stored).decode(want, errors or "strict")
        t = _SimText(text)
        self.next_fd += 1
        t._fd = self.next_fd
        self.fds[t._fd] = path
        return t


FAKE_FD0 = 1_000_000


class _SimText(io.StringIO):
    _fd = -1

    def fileno(self) -> int:
        return self._fd


class _SimBytes(io.BytesIO):
    _fd = -1

    def fileno(self) -> int:
        return self._fd


ACTIVE: SimFS | None = None
_installed = False


REL = "simrel"   # relative paths starting with this component resolve against the simulated cwd


def _norm(p: pathlib.PurePath) -> str | None:
    s = str(p)
    if s == ROOT or s.startswith(ROOT + "/"):
        return os.path.normpath(s)
    if s.startswith(REL) and ACTIVE is not None and ACTIVE.cwd:
        return os.path.normpath(ACTIVE.cwd + "/" + s)
    return None


def install() -> None:
    global _installed
    if _installed:
        return
    _installed = True
    real_stat = pathlib.Path.stat
    real_open = pathlib.Path.open

    def stat(self, *, follow_symlinks=True):
        s = _norm(self)
        if s is None or ACTIVE is None:
            return real_stat(self, follow_symlinks=follow_symlinks)
        return ACTIVE._stat(s, follow_symlinks)

    def open_(self, mode="r", buffering=-1, encoding=None, errors=None, newline=None):
        s = _norm(self)
        if s is None or ACTIVE is None:
            return real_open(self, mode, buffering, encoding, errors, newline)
        if "r" not in mode or "b" in mode or "+" in mode:
            raise OSError(errno.EROFS, "SimFS is read-only through Path.open", s)
        return ACTIVE._open(s, encoding, errors)

    pathlib.Path.stat = stat  # type: ignore[method-assign]
    pathlib.Path.open = open_  # type: ignore[method-assign]

    # The same dispatch one level lower, so that code reaching the file system through
    # os.stat / os.lstat / os.fstat / os.path.* / open() / io.open() sees SimFS too.
    import builtins

    real_os_stat, real_os_lstat, real_os_fstat = os.stat, os.lstat, os.fstat
    real_io_open = io.open

    def _as_sim(path):
        if isinstance(path, int) or ACTIVE is None:
            return None
        try:
            p = os.fspath(path)
        except TypeError:
            return None
        if isinstance(p, bytes):
            p = p.decode("utf-8", "surrogateescape")
        if p == ROOT or p.startswith(ROOT + "/"):
            return os.path.normpath(p)
        if p.startswith(REL) and ACTIVE.cwd:
            return os.path.normpath(ACTIVE.cwd + "/" + p)
        return None

    real_getcwd = os.getcwd

    def os_getcwd():
        if ACTIVE is not None and ACTIVE.cwd:
            return ACTIVE.cwd
        return real_getcwd()

    os.getcwd = os_getcwd

    def os_stat(path, *args, **kwargs):
        s = _as_sim(path)
        if s is None:
            return real_os_stat(path, *args, **kwargs)
        return ACTIVE._stat(s, kwargs.get("follow_symlinks", True))

    def os_lstat(path, *args, **kwargs):
        s = _as_sim(path)
        if s is None:
            return real_os_lstat(path, *args, **kwargs)
        return ACTIVE._stat(s, False)

    def os_fstat(fd):
        if isinstance(fd, int) and fd >= FAKE_FD0 and ACTIVE is not None and fd in ACTIVE.fds:
            return ACTIVE._stat(ACTIVE.fds[fd])
        return real_os_fstat(fd)

    def io_open(file, mode="r", *args, **kwargs):
        s = _as_sim(file)
        if s is None:
            return real_io_open(file, mode, *args, **kwargs)
        if "r" not in mode or "+" in mode:
            raise OSError(errno.EROFS, "SimFS is read-only through open()", s)
        enc = kwargs.get("encoding") if "encoding" in kwargs else (args[1] if len(args) > 1 else None)
        f = ACTIVE._open(s, None if "b" in mode else enc, kwargs.get("errors"))
        if "b" in mode:
            data = f.getvalue().encode(ACTIVE.encoding or "utf-8")
            b = _SimBytes(data)
            b._fd = f._fd
            return b
        return f

    os.stat = os_stat
    os.lstat = os_lstat
    os.fstat = os_fstat
    io.open = io_open
    builtins.open = io_open


def activate(fs: SimFS | None) -> None:
    global ACTIVE
    ACTIVE = fs
