"""Loader storage doubles and thin instrumented loader subclasses.

Only *where the bytes come from* is simulated; ``get_source``/``load`` and the
whole caching mixin are the library's real code.
"""

from __future__ import annotations

import asyncio
import errno
from pathlib import Path

from liquid2 import CachingChoiceLoader
from liquid2 import CachingDictLoader
from liquid2 import CachingFileSystemLoader
from liquid2 import CachingLoaderMixin
from liquid2 import ChoiceLoader
from liquid2 import DictLoader
from liquid2 import FileSystemLoader
from liquid2.exceptions import TemplateNotFoundError
from liquid2.loader import BaseLoader
from liquid2.loader import TemplateSource

from . import simfs
from .loop import park


from .loop import task_name as _task  # noqa: E402


class ReadLog:
    """Counts successful content reads per task; oracle reads are not counted."""

    def __init__(self) -> None:
        self.by_task: dict[str, int] = {}
        self.total = 0
        self.failed = 0
        self.observer = 0  # >0 while the oracle itself is reading
        self.unavailable = False
        self.eio_fired = 0
        self.calls = 0           # storage calls seen (not counting oracle reads)
        self.fail_at: int | None = None  # the j-th storage call raises EIO (fault F3 by position)

    def ok(self) -> None:
        if self.observer:
            return
        self.total += 1
        t = _task()
        self.by_task[t] = self.by_task.get(t, 0) + 1

    def fail(self) -> None:
        if not self.observer:
            self.failed += 1

    def count(self, task: str | None = None) -> int:
        return self.by_task.get(task if task is not None else _task(), 0)

    def check_available(self, what: str) -> None:
        if not self.observer:
            self.calls += 1
            if self.fail_at is not None and self.calls == self.fail_at:
                self.eio_fired += 1
                raise OSError(errno.EIO, "simulated storage fault", what)
        if self.unavailable:
            if not self.observer:
                self.eio_fired += 1
            raise OSError(errno.EIO, "simulated storage outage", what)


class LoggingDict(dict):
    """The ``templates`` dict of a (Caching)DictLoader, with a read log."""

    def __init__(self, log: ReadLog, tag: str = "d") -> None:
        super().__init__()
        self.rlog = log
        self.tag = tag

    def __getitem__(self, key):
        self.rlog.check_available(f"{self.tag}:{key}")
        try:
            v = dict.__getitem__(self, key)
        except KeyError:
            self.rlog.fail()
            raise
        self.rlog.ok()
        return v


class ParkedDictLoader(DictLoader):
    """DictLoader whose async path has one await point (a remote store)."""

    async def get_source_async(self, env, template_name, *, context=None, **kwargs):
        await park(f"src:{template_name}")
        return self.get_source(env, template_name, context=context, **kwargs)


class ParkedCachingDictLoader(CachingDictLoader):
    async def get_source_async(self, env, template_name, *, context=None, **kwargs):
        await park(f"src:{template_name}")
        return self.get_source(env, template_name, context=context, **kwargs)


class NsStore:
    """(namespace, name) -> (source, version stamp) for the custom loader."""

    def __init__(self, log: ReadLog) -> None:
        self.rlog = log
        self.data: dict[tuple[str, str], tuple[str, int]] = {}
        self.stamp = 0

    def put(self, ns: str, name: str, source: str, *, same_stamp: bool = False) -> None:
        if not same_stamp or (ns, name) not in self.data:
            self.stamp += 1
            st = self.stamp
        else:
            st = self.data[(ns, name)][1]
        self.data[(ns, name)] = (source, st)

    def delete(self, ns: str, name: str) -> None:
        self.data.pop((ns, name), None)

    def stamp_of(self, ns: str, name: str) -> int | None:
        self.rlog.check_available(f"ns:{ns}/{name}")
        v = self.data.get((ns, name))
        return v[1] if v else None

    def read(self, ns: str, name: str) -> tuple[str, int]:
        self.rlog.check_available(f"ns:{ns}/{name}")
        v = self.data.get((ns, name))
        if v is None:
            self.rlog.fail()
            raise KeyError((ns, name))
        self.rlog.ok()
        return v


class NsLoader(BaseLoader):
    """A namespace-aware loader written the documented way.

    The namespace comes from a loader keyword argument, else from the render
    context's globals, else ``"_"`` (shared).  ``freshness``: 'none' (no
    ``uptodate``), 'sync' or 'async' (an awaitable check with one await point).
    """

    def __init__(self, store: NsStore, ns_key: str, freshness: str = "none",
                 matter: bool = False) -> None:
        super().__init__()
        self.store = store
        self.ns_key = ns_key
        self.freshness = freshness
        self.matter = matter

    def _ns(self, context, kwargs) -> str:
        if self.ns_key in kwargs:
            return str(kwargs[self.ns_key])
        if context is not None:
            try:
                return str(context.globals[self.ns_key])
            except KeyError:
                pass
        return "_"

    def get_source(self, env, template_name, *, context=None, **kwargs):
        ns = self._ns(context, kwargs)
        try:
            source, stamp = self.store.read(ns, template_name)
        except KeyError:
            raise TemplateNotFoundError(template_name) from None
        uptodate = None
        if self.freshness == "sync":
            uptodate = lambda: self.store.stamp_of(ns, template_name) == stamp  # noqa: E731
        elif self.freshness == "async":

            async def uptodate() -> bool:  # type: ignore[misc]
                await park(f"fresh:{ns}/{template_name}")
                return self.store.stamp_of(ns, template_name) == stamp

        matter = {"matter_ns": ns} if self.matter else None
        return TemplateSource(source, f"{ns}/{template_name}", uptodate, matter)

    async def get_source_async(self, env, template_name, *, context=None, **kwargs):
        await park(f"src:{template_name}")
        return self.get_source(env, template_name, context=context, **kwargs)


class CachingNsLoader(CachingLoaderMixin, NsLoader):
    def __init__(self, store, ns_key, freshness="none", matter=False, *,
                 auto_reload=True, namespace_key="", capacity=300, thread_safe=False) -> None:
        super().__init__(
            auto_reload=auto_reload, namespace_key=namespace_key, capacity=capacity,
            thread_safe=thread_safe,
        )
        NsLoader.__init__(self, store, ns_key, freshness, matter)


# --------------------------------------------------------------------------
# Stores: one object per loader kind; same interface for the C14/C09 engines.
# A "loc" identifies one stored source: dict -> "d0:name", fs -> path, ns -> "ns/name".


class Store:
    kind = "?"

    def __init__(self) -> None:
        self.rlog = ReadLog()
        self.write_seq = 0
        self.writes: list[tuple[int, str, str]] = []  # (seq, loc, content)

    def _note(self, loc: str, content: str | None) -> None:
        self.write_seq += 1
        self.writes.append((self.write_seq, loc, content if content is not None else ""))

    def activate(self) -> None:
        pass

    def set_unavailable(self, flag: bool) -> None:
        self.rlog.unavailable = flag


class DictStore(Store):
    """One or two template dicts (two -> ChoiceLoader over two DictLoaders)."""

    def __init__(self, n: int = 1, parked: bool = False) -> None:
        super().__init__()
        self.kind = "dict" if n == 1 else "choice_dd"
        self.parked = parked
        self.dicts = [LoggingDict(self.rlog, f"d{i}") for i in range(n)]

    def locs(self, name: str) -> list[str]:
        return [f"d{i}:{name}" for i in range(len(self.dicts))]

    def write(self, loc: str, content: str, mtime=None) -> None:
        tag, name = loc.split(":", 1)
        dict.__setitem__(self.dicts[int(tag[1:])], name, content)
        self._note(loc, content)

    def delete(self, loc: str) -> None:
        tag, name = loc.split(":", 1)
        dict.pop(self.dicts[int(tag[1:])], name, None)
        self._note(loc, None)

    def content(self, loc: str):
        tag, name = loc.split(":", 1)
        return dict.get(self.dicts[int(tag[1:])], name)

    def mtime(self, loc: str):
        return None

    def has_freshness(self, loc: str) -> bool:
        return False

    def clone(self) -> "DictStore":
        c = DictStore(len(self.dicts), self.parked)
        for d, cd in zip(self.dicts, c.dicts):
            dict.update(cd, d)
        c.rlog.unavailable = self.rlog.unavailable
        return c

    def make_loader(self, caching: bool, **kw):
        if len(self.dicts) == 1:
            if caching:
                cls = ParkedCachingDictLoader if self.parked else CachingDictLoader
                return cls(self.dicts[0], **kw)
            cls = ParkedDictLoader if self.parked else DictLoader
            return cls(self.dicts[0])
        cls = ParkedDictLoader if self.parked else DictLoader
        children = [cls(d) for d in self.dicts]
        return CachingChoiceLoader(children, **kw) if caching else ChoiceLoader(children)


CWDS = (f"{simfs.ROOT}/cwdA", f"{simfs.ROOT}/cwdB")


class FsStore(Store):
    """SimFS with one or two search paths, optional default extension, and an
    optional DictLoader fallback (ChoiceLoader[FileSystemLoader, DictLoader])."""

    def __init__(self, n_paths: int = 1, ext: str | None = None, with_dict: bool = False,
                 parked: bool = False, fs: simfs.SimFS | None = None, encoding: str = "utf-8",
                 relative: bool = False) -> None:
        super().__init__()
        self.relative = relative
        self._probe = None
        self.kind = "fs" + (str(n_paths) if n_paths > 1 else "") + ("x" if ext else "") + (
            "+d" if with_dict else "")
        self.fs = fs or simfs.SimFS()
        self.fs.rlog = self.rlog
        self.encoding = encoding
        self.fs.encoding = encoding
        if relative:
            # a RELATIVE search path: what it names depends on the process working directory
            self.roots = [f"{simfs.REL}{i}" for i in range(n_paths)]
            if self.fs.cwd is None:
                self.fs.cwd = CWDS[0]
            for cwd in CWDS:
                for r in self.roots:
                    self.fs.mkdir(f"{cwd}/{r}")
        else:
            self.roots = [f"{simfs.ROOT}/p{i}" for i in range(n_paths)]
            for r in self.roots:
                self.fs.mkdir(r)
        self.ext = ext
        self.parked = parked
        self.dict = LoggingDict(self.rlog, "d0") if with_dict else None
        self._opens0 = 0

    def activate(self) -> None:
        simfs.activate(self.fs)

    def set_unavailable(self, flag: bool) -> None:
        self.rlog.unavailable = flag
        self.fs.unavailable = flag

    def _fname(self, name: str) -> str:
        p = Path(name)
        if self.ext and not p.suffix:
            p = p.with_suffix(self.ext)
        return str(p)

    def locs(self, name: str) -> list[str]:
        if self.relative:
            out = [f"{b}/{self._fname(name)}" for b in self.bases()]
        else:
            out = [f"{r}/{self._fname(name)}" for r in self.roots]
        if self.dict is not None:
            out.append(f"d0:{name}")
        return out

    def bases(self) -> list[str]:
        """Where the loaders' (relative) search paths point NOW.  Asked of the real uncached
        loader: an implementation may keep the path relative (it follows the working directory)
        or make it absolute when the loader is built (it never moves) - both are transparent."""
        sps = getattr(self._probe, "search_path", None) if self._probe is not None else None
        out = []
        for i, r in enumerate(self.roots):
            sp = str(sps[i]) if sps is not None and i < len(sps) else r
            out.append(sp if sp.startswith("/") else f"{self.fs.cwd}/{sp}")
        return out

    def current_tree(self) -> str:
        """'/simfs/cwdA' or '/simfs/cwdB': the tree the loaders read now."""
        return "/".join(self.bases()[0].split("/")[:3])

    def write(self, loc: str, content: str, mtime=None) -> None:
        if loc.startswith("d0:"):
            dict.__setitem__(self.dict, loc[3:], content)
        else:
            self.fs.write(loc, content, float(mtime))
        self._note(loc, content)

    def delete(self, loc: str) -> None:
        if loc.startswith("d0:"):
            dict.pop(self.dict, loc[3:], None)
        else:
            self.fs.delete(loc)
        self._note(loc, None)

    def content(self, loc: str):
        if loc.startswith("d0:"):
            return dict.get(self.dict, loc[3:])
        f = self.fs.files.get(loc)
        return f[0] if f else None

    def mtime(self, loc: str):
        if loc.startswith("d0:"):
            return None
        f = self.fs.files.get(loc)
        return f[1] if f else None

    def has_freshness(self, loc: str) -> bool:
        return not loc.startswith("d0:")

    def clone(self) -> "FsStore":
        c = FsStore(len(self.roots), self.ext, self.dict is not None, self.parked,
                    fs=self.fs.clone(), encoding=self.encoding, relative=self.relative)
        if self.dict is not None:
            dict.update(c.dict, self.dict)
        c.set_unavailable(self.rlog.unavailable)
        return c

    def make_loader(self, caching: bool, **kw):
        sp = self.roots if len(self.roots) > 1 else self.roots[0]
        if self.relative:
            # every loader of this world is built under the FIRST working directory (also the
            # counterpart over a clone, built later), whatever an implementation makes of it
            old_cwd, self.fs.cwd = self.fs.cwd, CWDS[0]
            try:
                if caching:
                    return CachingFileSystemLoader(sp, encoding=self.encoding, ext=self.ext, **kw)
                ld = FileSystemLoader(sp, encoding=self.encoding, ext=self.ext)
                if self._probe is None:
                    self._probe = ld
                return ld
            finally:
                self.fs.cwd = old_cwd
        if self.dict is None:
            if caching:
                return CachingFileSystemLoader(sp, encoding=self.encoding, ext=self.ext, **kw)
            return FileSystemLoader(sp, encoding=self.encoding, ext=self.ext)
        dcls = ParkedDictLoader if self.parked else DictLoader
        children = [FileSystemLoader(sp, encoding=self.encoding, ext=self.ext), dcls(self.dict)]
        return CachingChoiceLoader(children, **kw) if caching else ChoiceLoader(children)


class NsStoreWrap(Store):
    def __init__(self, ns_key: str, freshness: str = "none", matter: bool = False) -> None:
        super().__init__()
        self.kind = "ns" + {"none": "", "sync": "+f", "async": "+af"}[freshness]
        self.store = NsStore(self.rlog)
        self.ns_key = ns_key
        self.freshness = freshness
        self.matter = matter
        self.thread_safe = False

    def locs(self, name: str) -> list[str]:  # by namespace, resolved by caller
        raise NotImplementedError

    def write(self, loc: str, content: str, mtime=None, same_stamp: bool = False) -> None:
        ns, name = loc.split("/", 1)
        self.store.put(ns, name, content, same_stamp=same_stamp)
        self._note(loc, content)

    def delete(self, loc: str) -> None:
        ns, name = loc.split("/", 1)
        self.store.delete(ns, name)
        self._note(loc, None)

    def content(self, loc: str):
        ns, name = loc.split("/", 1)
        v = self.store.data.get((ns, name))
        return v[0] if v else None

    def mtime(self, loc: str):
        ns, name = loc.split("/", 1)
        v = self.store.data.get((ns, name))
        return v[1] if v else None

    def has_freshness(self, loc: str) -> bool:
        return self.freshness != "none"

    def clone(self) -> "NsStoreWrap":
        c = NsStoreWrap(self.ns_key, self.freshness, self.matter)
        c.thread_safe = self.thread_safe
        c.store.data = dict(self.store.data)
        c.store.stamp = self.store.stamp
        c.rlog.unavailable = self.rlog.unavailable
        return c

    def make_loader(self, caching: bool, **kw):
        if caching:
            return CachingNsLoader(self.store, self.ns_key, self.freshness, self.matter,
                                   thread_safe=self.thread_safe, **kw)
        return NsLoader(self.store, self.ns_key, self.freshness, self.matter)
