"""Batch runner: seeds -> pristine forked children -> aggregated evidence.

Process tree:  main --(ProcessPoolExecutor, fork)--> W workers --(os.fork per
run)--> one child per simulated run.  Workers import liquid2 but never parse or
render, so every child starts from a pristine copy of the library's
process-global state; the child exits after one run.

Classification: ``ok`` | ``violation`` | ``capped`` (step cap hit, discarded) |
``inconclusive`` (RecursionError etc., discarded) | ``harness_error`` (exception
in the harness itself) | ``timeout`` (wall timeout; retried once).
"""

from __future__ import annotations

import concurrent.futures
import faulthandler
import hashlib
import json
import multiprocessing
import os
import select
import signal
import sys
import time
import traceback
from collections import Counter

RUN_TIMEOUT_S = float(os.environ.get("VERIF_RUN_TIMEOUT", "40"))


def derive_seed(master: int, index: int) -> int:
    h = hashlib.sha256(f"{master}:{index}".encode()).digest()
    return int.from_bytes(h[:6], "big")


def digest(obj) -> str:
    return hashlib.sha256(
        json.dumps(obj, sort_keys=True, default=str).encode()
    ).hexdigest()[:16]


def in_child(fn, arg, timeout: float = RUN_TIMEOUT_S):
    """Run ``fn(arg)`` in a forked child; return its JSON-able result.

    Returns ``{"status": "timeout"}`` / ``{"status": "harness_error", ...}`` when
    the child hangs or dies.
    """
    r, w = os.pipe()
    sys.stdout.flush()
    sys.stderr.flush()
    pid = os.fork()
    if pid == 0:
        code = 0
        try:
            os.close(r)
            faulthandler.dump_traceback_later(timeout + 5, exit=True)
            try:
                res = fn(arg)
            except BaseException as exc:  # noqa: BLE001
                res = {
                    "status": "harness_error",
                    "error": f"{type(exc).__name__}: {exc}",
                    "traceback": traceback.format_exc()[-4000:],
                }
            data = json.dumps(res, default=str).encode()
            with os.fdopen(w, "wb") as f:
                f.write(data)
        except BaseException:  # noqa: BLE001
            code = 3
        finally:
            os._exit(code)
    os.close(w)
    chunks = []
    deadline = time.monotonic() + timeout
    timed_out = False
    while True:
        left = deadline - time.monotonic()
        if left <= 0:
            timed_out = True
            break
        rl, _, _ = select.select([r], [], [], left)
        if not rl:
            timed_out = True
            break
        b = os.read(r, 1 << 16)
        if not b:
            break
        chunks.append(b)
    os.close(r)
    if timed_out:
        try:
            os.kill(pid, signal.SIGKILL)
        except ProcessLookupError:
            pass
    os.waitpid(pid, 0)
    if timed_out:
        return {"status": "timeout"}
    try:
        return json.loads(b"".join(chunks).decode())
    except Exception:  # noqa: BLE001
        return {"status": "harness_error", "error": "child died without a result"}


def _worker(args):
    (engine_mod, tier, master, indices, deadline, opts) = args
    import importlib

    eng = importlib.import_module(engine_mod).ENGINE
    agg = {
        "runs": 0,
        "status": Counter(),
        "counters": Counter(),
        "digests": set(),
        "nontrivial": set(),
        "violations": [],
        "samples": [],
        "errors": [],
        "sim_seconds": 0.0,
        "first_seed": None,
        "last_seed": None,
    }
    for n, idx in enumerate(indices):
        if time.time() > deadline:
            break
        seed = derive_seed(master, idx)
        job = {"seed": seed, "tier": tier, "opts": opts, "want_sample": n < 1}
        res = in_child(eng.run_seed, job)
        if res.get("status") == "timeout":
            res = in_child(eng.run_seed, job, timeout=RUN_TIMEOUT_S * 3)
            if res.get("status") == "timeout":
                # a run that does not finish is discarded and counted, never judged: the
                # properties bound nothing about running time (that would be C02/C06)
                res = {"status": "timeout", "counters": {"discarded_timeout": 1}}
                agg["errors"].append({"seed": seed, "error": "run exceeded the wall timeout twice; discarded"})
        agg["runs"] += 1
        if opts.get("collect"):
            slim = {k: v for k, v in res.items() if k not in ("sample", "traceback")}
            agg.setdefault("collected", []).append([seed, digest(slim), res.get("status")])
        if agg["first_seed"] is None:
            agg["first_seed"] = seed
        agg["last_seed"] = seed
        st = res.get("status", "harness_error")
        agg["status"][st] += 1
        for k, v in (res.get("counters") or {}).items():
            agg["counters"][k] += v
        agg["sim_seconds"] += res.get("sim_seconds", 0.0)
        if res.get("digest"):
            agg["digests"].add(res["digest"])
            if res.get("nontrivial"):
                agg["nontrivial"].add(res["digest"])
        for s in res.get("states") or ():
            agg.setdefault("states", set()).add(s)
        for s in res.get("transitions") or ():
            agg.setdefault("transitions", set()).add(s)
        if res.get("sample") is not None and len(agg["samples"]) < 2:
            agg["samples"].append(res["sample"])
        if st == "harness_error":
            agg["errors"].append({"seed": seed, **{k: res.get(k) for k in ("error", "traceback")}})
        if st == "violation":
            v = {"seed": seed, "plan": res.get("plan"), "violation": res.get("violation")}
            if opts.get("collect"):
                agg["violations"].append({"seed": seed, "violation": res.get("violation")})
            elif len(agg["violations"]) < opts.get("max_violations_per_worker", 4):
                try:
                    v = eng.minimise(v, in_child)
                except Exception as exc:  # noqa: BLE001
                    v["minimise_error"] = f"{type(exc).__name__}: {exc}"
                agg["violations"].append(v)
            else:
                agg["counters"]["violations_not_minimised"] += 1
                agg["violations"].append({"seed": seed, "violation": res.get("violation"), "plan": res.get("plan"), "unminimised": True})
    for k in ("digests", "nontrivial", "states", "transitions"):
        if k in agg:
            agg[k] = sorted(agg[k])
    agg["status"] = dict(agg["status"])
    agg["counters"] = dict(agg["counters"])
    return agg


def run_batch(engine_mod: str, *, tier: str, master: int, n_runs: int, workers: int,
              wall_cap_s: float, opts: dict | None = None) -> dict:
    opts = dict(opts or {})
    t0 = time.time()
    deadline = t0 + wall_cap_s
    workers = max(1, min(workers, n_runs))
    chunks = [list(range(w, n_runs, workers)) for w in range(workers)]
    ctx = multiprocessing.get_context("fork")
    total = {
        "runs": 0, "status": Counter(), "counters": Counter(), "digests": set(),
        "nontrivial": set(), "violations": [], "samples": [], "errors": [],
        "sim_seconds": 0.0, "states": set(), "transitions": set(), "seeds": [],
    }
    with concurrent.futures.ProcessPoolExecutor(max_workers=workers, mp_context=ctx) as ex:
        futs = [
            ex.submit(_worker, (engine_mod, tier, master, c, deadline, opts))
            for c in chunks
        ]
        for f in futs:
            a = f.result(timeout=wall_cap_s + RUN_TIMEOUT_S * 8 + 600)
            total["runs"] += a["runs"]
            total["status"].update(a["status"])
            total["counters"].update(a["counters"])
            total["digests"].update(a["digests"])
            total["nontrivial"].update(a["nontrivial"])
            total["states"].update(a.get("states", ()))
            total["transitions"].update(a.get("transitions", ()))
            total["violations"].extend(a["violations"])
            total["samples"].extend(a["samples"])
            total["errors"].extend(a["errors"])
            total["sim_seconds"] += a["sim_seconds"]
            total.setdefault("collected", []).extend(a.get("collected", []))
            if a["first_seed"] is not None:
                total["seeds"].append(a["first_seed"])
    total["wall_s"] = time.time() - t0
    total["workers"] = workers
    total["requested_runs"] = n_runs
    return total
