"""Scheduler policies: which parked item completes next.

Every policy is a pure function of its own ``random.Random`` and the list of
parked items (task name, label, arrival order), so one seed is one schedule.
A run's decisions are recorded by the loop; ``Replay`` feeds them back.
"""

from __future__ import annotations

import random

POLICIES = ("fifo", "lifo", "uniform", "rtc", "starve", "pct", "swap")


class Scheduler:
    name = "base"

    def choose(self, parked, decision_no: int) -> int:  # pragma: no cover
        raise NotImplementedError


class Fifo(Scheduler):
    name = "fifo"

    def choose(self, parked, decision_no):
        return 0


class Lifo(Scheduler):
    name = "lifo"

    def choose(self, parked, decision_no):
        return len(parked) - 1


class Uniform(Scheduler):
    name = "uniform"

    def __init__(self, rng: random.Random):
        self.rng = rng

    def choose(self, parked, decision_no):
        return self.rng.randrange(len(parked))


class RunToCompletion(Scheduler):
    """Keep releasing the same task until it has nothing parked, then switch."""

    name = "rtc"

    def __init__(self, rng: random.Random):
        self.rng = rng
        self.focus: str | None = None

    def choose(self, parked, decision_no):
        for i, p in enumerate(parked):
            if p.task == self.focus:
                return i
        i = self.rng.randrange(len(parked))
        self.focus = parked[i].task
        return i


class Starve(Scheduler):
    """One victim task is released only when nothing else can run."""

    name = "starve"

    def __init__(self, rng: random.Random):
        self.rng = rng
        self.victim: str | None = None

    def choose(self, parked, decision_no):
        if self.victim is None:
            self.victim = parked[self.rng.randrange(len(parked))].task
        others = [i for i, p in enumerate(parked) if p.task != self.victim]
        if others:
            return others[self.rng.randrange(len(others))]
        return 0


class PCT(Scheduler):
    """Random task priorities with d priority-change points (Burckhardt et al.)."""

    name = "pct"

    def __init__(self, rng: random.Random, depth: int = 2, horizon: int = 60):
        self.rng = rng
        self.prio: dict[str, float] = {}
        self.change = sorted(rng.randrange(horizon) for _ in range(depth))
        self.low = 0.0

    def choose(self, parked, decision_no):
        for p in parked:
            if p.task not in self.prio:
                self.prio[p.task] = self.rng.random() + 1.0
        best = max(range(len(parked)), key=lambda i: (self.prio[parked[i].task], -i))
        while self.change and self.change[0] <= decision_no:
            self.change.pop(0)
            self.low -= 1.0
            self.prio[parked[best].task] = self.low
            best = max(
                range(len(parked)), key=lambda i: (self.prio[parked[i].task], -i)
            )
        return best


class Swap(Scheduler):
    """FIFO with one adjacent transposition: the minimal perturbation."""

    name = "swap"

    def __init__(self, rng: random.Random, horizon: int = 40):
        self.at = rng.randrange(horizon)
        self.done = False

    def choose(self, parked, decision_no):
        if not self.done and decision_no >= self.at and len(parked) > 1:
            self.done = True
            return 1
        return 0


class Replay(Scheduler):
    """Feed recorded decisions back; out of range -> modulo, missing -> FIFO."""

    name = "replay"

    def __init__(self, decisions):
        self.decisions = [d[0] if isinstance(d, (list, tuple)) else int(d) for d in decisions]

    def choose(self, parked, decision_no):
        if decision_no < len(self.decisions):
            return self.decisions[decision_no] % len(parked)
        return 0


def make(policy: str, seed: int) -> Scheduler:
    rng = random.Random(f"sched:{policy}:{seed}")
    if policy == "fifo":
        return Fifo()
    if policy == "lifo":
        return Lifo()
    if policy == "uniform":
        return Uniform(rng)
    if policy == "rtc":
        return RunToCompletion(rng)
    if policy == "starve":
        return Starve(rng)
    if policy == "pct":
        return PCT(rng, depth=rng.choice((1, 2, 3)), horizon=rng.choice((10, 30, 80)))
    if policy == "swap":
        return Swap(rng, horizon=rng.choice((4, 12, 40)))
    raise ValueError(policy)
