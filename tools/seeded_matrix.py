#!/venv/bin/python
"""Run every seeded change against the check of its property (quick tier) and record
what was detected: seeded/RESULTS.json, seeded/<id>/meta.json["detection"], and a
markdown table on stdout.  usage: tools/seeded_matrix.py [id-prefix ...]"""
import json, os, re, subprocess, sys, tempfile, shutil, time

HERE = os.path.dirname(os.path.dirname(os.path.abspath(__file__)))
SEEDED = os.path.join(HERE, "seeded")
ids = sorted(d for d in os.listdir(SEEDED) if os.path.isdir(os.path.join(SEEDED, d)))
if len(sys.argv) > 1:
    ids = [i for i in ids if any(i.startswith(p) for p in sys.argv[1:])]
res_path = os.path.join(SEEDED, "RESULTS.json")
results = json.load(open(res_path)) if os.path.exists(res_path) else {}
for sid in ids:
    meta_p = os.path.join(SEEDED, sid, "meta.json")
    meta = json.load(open(meta_p))
    prop = meta.get("property") or {"c03": "C03", "c09": "C09", "c14": "C14"}[sid[:3]]
    d = tempfile.mkdtemp(prefix="seed.", dir="/dev/shm")
    try:
        subprocess.run(["rsync", "-a", "--exclude", ".git", "--exclude", "docs", "--exclude", "performance", "/repo/", d + "/"], check=True)
        p = subprocess.run(["patch", "-p1", "-s", "-i", os.path.join(SEEDED, sid, "patch.diff")], cwd=d, capture_output=True, text=True)
        if p.returncode != 0:
            results[sid] = {"property": prop, "error": "patch does not apply to current /repo HEAD: " + (p.stdout + p.stderr)[-200:]}
            continue
        t0 = time.time()
        env = dict(os.environ, VERIF_REPO=d)
        out = subprocess.run([os.path.join(HERE, "check"), prop, "--no-evidence", "--tier", "quick"], env=env, capture_output=True, text=True)
        txt = out.stdout + out.stderr
        sigs = {}
        for m in re.finditer(r"sig=(\S+)", txt):
            sigs[m.group(1)] = sigs.get(m.group(1), 0) + 1
        m = re.search(r"runs=(\d+) status=(\{.*?\})", txt)
        runs = int(m.group(1)) if m else 0
        status = eval(m.group(2)) if m else {}
        results[sid] = {"property": prop, "check": prop, "exit": out.returncode, "runs": runs,
                        "violating_runs": status.get("violation", 0), "reported_sigs": sigs,
                        "wall_s": round(time.time() - t0, 1), "summary": meta.get("summary", "")[:300],
                        "needs": meta.get("needs_to_manifest", "")[:300]}
        meta["detection"] = {k: results[sid][k] for k in ("check", "exit", "runs", "violating_runs", "reported_sigs")}
        meta["detection"]["cmd"] = f"tools/run_seeded.sh {sid} {prop}   (quick tier, default seed, scratch copy of /repo with the patch under /dev/shm, removed afterwards)"
        json.dump(meta, open(meta_p, "w"), indent=1)
        print(sid, results[sid]["exit"], results[sid]["violating_runs"], "/", runs, sigs, flush=True)
    finally:
        shutil.rmtree(d, ignore_errors=True)
    json.dump(results, open(res_path, "w"), indent=1, sort_keys=True)
print()
print("| id | property | what the change does | needs | detected (violating runs / runs, quick) |")
print("|---|---|---|---|---|")
for sid in sorted(results):
    r = results[sid]
    if "error" in r:
        print(f"| {sid} | {r['property']} | - | - | {r['error']} |")
        continue
    s = r["summary"].replace("|", "\\|").replace("\n", " ")[:160]
    n = r["needs"].replace("|", "\\|").replace("\n", " ")[:120]
    det = f"**yes** {r['violating_runs']}/{r['runs']}" if r["exit"] == 1 else f"NO ({r['exit']})"
    print(f"| {sid} | {r['property']} | {s} | {n} | {det} |")
