"""Data-source doubles: lazily awaited "drops" with access logs and fault points.

``wrap(value, spec, ctl)`` turns a JSON-like value into a tree in which the
sub-trees named by ``spec`` are ``SimDrop`` (Mapping) / ``SimSeqDrop`` (Sequence)
objects.  ``__getitem__`` is the sync path; ``__getitem_async__`` parks on the
SimLoop and then returns *the same value through the same code*, so a sync and
an async render differ only in where they can be pre-empted.
"""

from __future__ import annotations

from collections.abc import Mapping
from collections.abc import Sequence
from typing import Any

from .loop import park


class InjectedFault(Exception):
    """A data source failed (fault F2)."""


class LiquidKey:
    """A key object with a ``__liquid__`` method (resolved to a primitive by the engine)."""

    __slots__ = ("v",)

    def __init__(self, v) -> None:
        self.v = v

    def __liquid__(self):
        return self.v

    def __str__(self) -> str:
        return str(self.v)

    def __repr__(self) -> str:
        return f"LiquidKey({self.v!r})"



def _make_exc(kind: str, msg: str) -> BaseException:
    if kind == "KeyError":
        return KeyError(msg)
    if kind == "IndexError":
        return IndexError(msg)
    if kind == "TypeError":
        return TypeError(msg)
    if kind == "LiquidTypeError":
        from liquid2.exceptions import LiquidTypeError

        return LiquidTypeError(msg, token=None)
    if kind == "UndefinedError":
        from liquid2.exceptions import UndefinedError

        return UndefinedError(msg, token=None)
    return InjectedFault(msg)


class DropCtl:
    """Per-render control block: access log, counters and armed faults."""

    __slots__ = ("log", "count", "fail_keys", "fail_at", "fired", "tag", "keep_log", "exc",
                 "reenter_at", "reenter", "reentered")

    def __init__(self, tag: str = "", *, fail_keys=(), fail_at: int | None = None,
                 keep_log: bool = False, exc: str = "InjectedFault") -> None:
        self.exc = exc
        self.log: list[str] = []
        self.count = 0
        self.fail_keys = frozenset(fail_keys)
        self.fail_at = fail_at
        self.fired = 0
        self.tag = tag
        self.keep_log = keep_log
        self.reenter_at: int | None = None   # re-entrancy fault: at access k the data source calls
        self.reenter = None                  # back into the library (a nested, independent render)
        self.reentered = 0

    def access(self, path: str, key: Any) -> None:
        self.count += 1
        if self.keep_log:
            self.log.append(f"{path}.{key}")
        if self.reenter_at is not None and self.count == self.reenter_at and self.reenter is not None:
            fn, self.reenter = self.reenter, None
            self.reentered += 1
            fn()
        if self.fail_at is not None and self.count == self.fail_at:
            self.fired += 1
            raise _make_exc(self.exc, f"{self.tag}#{self.count}")
        if self.fail_keys and f"{path}.{key}" in self.fail_keys:
            self.fired += 1
            raise _make_exc(self.exc, f"{self.tag}:{path}.{key}")


class SyncOnlyDrop(Mapping):
    """A Mapping drop without an async getter (the plain ``obj[key]`` branch)."""

    __slots__ = ("_d", "_ctl", "_path", "_spec")

    def __init__(self, d: dict, ctl: DropCtl, path: str, spec) -> None:
        self._d = d
        self._ctl = ctl
        self._path = path
        self._spec = spec

    def __getitem__(self, key):
        self._ctl.access(self._path, key)
        return _wrap(self._d[key], self._spec, self._ctl, f"{self._path}.{key}")

    def __iter__(self):
        return iter(self._d)

    def __len__(self) -> int:
        return len(self._d)

    def __contains__(self, key) -> bool:
        return key in self._d

    def __repr__(self) -> str:
        return f"SimDrop({self._d!r})"

    def __str__(self) -> str:
        return f"SimDrop({self._path})"


class SimDrop(SyncOnlyDrop):
    """A Mapping drop whose items are awaited lazily in async renders."""

    __slots__ = ()

    async def __getitem_async__(self, key):
        await park(f"drop:{self._path}.{key}")
        return self.__getitem__(key)


class SimSeqDrop(Sequence):
    __slots__ = ("_l", "_ctl", "_path", "_spec")

    def __init__(self, l: list, ctl: DropCtl, path: str, spec) -> None:
        self._l = l
        self._ctl = ctl
        self._path = path
        self._spec = spec

    def __getitem__(self, i):
        if isinstance(i, slice):
            return [
                _wrap(v, self._spec, self._ctl, f"{self._path}[]")
                for v in self._l[i]
            ]
        if not isinstance(i, int):
            raise TypeError("sequence indices must be integers")
        self._ctl.access(self._path, i)
        return _wrap(self._l[i], self._spec, self._ctl, f"{self._path}[{i}]")

    async def __getitem_async__(self, i):
        await park(f"drop:{self._path}[{i}]")
        return self.__getitem__(i)

    def __len__(self) -> int:
        return len(self._l)

    def __iter__(self):
        for i, v in enumerate(self._l):
            yield _wrap(v, self._spec, self._ctl, f"{self._path}[{i}]")

    def __repr__(self) -> str:
        return f"SimSeqDrop({self._l!r})"

    def __str__(self) -> str:
        return f"SimSeqDrop({self._path})"


# ``spec``: {"mode": "all"|"none"|"paths", "paths": set[str], "seq": bool, "sync": set[str]}
class StrObj:
    """A value object whose text form is produced by ``__str__`` (a data access like any other:
    counted, and a fault can be placed on it)."""

    __slots__ = ("text", "_ctl", "_path")

    def __init__(self, text: str, ctl: DropCtl, path: str) -> None:
        self.text = text
        self._ctl = ctl
        self._path = path

    def __str__(self) -> str:
        self._ctl.access(self._path, "__str__")
        return self.text

    def __repr__(self) -> str:
        return f"StrObj({self.text!r})"


def _wrap(v, spec, ctl: DropCtl, path: str):
    if isinstance(v, dict) and len(v) == 1 and "__liquid__" in v:
        return LiquidKey(v["__liquid__"])
    if isinstance(v, dict) and len(v) == 1 and "__strobj__" in v:
        return StrObj(v["__strobj__"], ctl, path)
    if isinstance(v, dict):
        m = spec.get("mode", "all")
        if m == "all" or (m == "paths" and path in spec["paths"]):
            if path in spec.get("sync", ()):
                return SyncOnlyDrop(v, ctl, path, spec)
            return SimDrop(v, ctl, path, spec)
        return {k: _wrap(x, spec, ctl, f"{path}.{k}") for k, x in v.items()}
    if isinstance(v, list):
        if spec.get("seq") and (
            spec.get("mode", "all") == "all" or path in spec.get("paths", ())
        ):
            return SimSeqDrop(v, ctl, path, spec)
        return [_wrap(x, spec, ctl, f"{path}[{i}]") for i, x in enumerate(v)]
    return v


def wrap_data(data: dict, spec, ctl: DropCtl) -> dict:
    """Wrap the *values* of a render-arguments dict (the root stays a dict)."""
    return {k: _wrap(v, spec, ctl, k) for k, v in data.items()}
