#!/bin/bash
# usage: tools/run_seeded.sh <seeded-id> <check-id> [extra args] ; applies seeded/<id>/patch.diff to a scratch copy and runs the check
set -u
ID=$1; CK=$2; shift 2
D=$(mktemp -d /dev/shm/seed.XXXXXX)
rsync -a --exclude .git --exclude docs --exclude performance /repo/ "$D/"
if ! (cd "$D" && git apply --unsafe-paths --directory="$D" /verif/seeded/$ID/patch.diff 2>/dev/null || patch -p1 -s < /verif/seeded/$ID/patch.diff); then echo "$ID PATCH FAILED"; rm -rf "$D"; exit 3; fi
out=$(VERIF_REPO="$D" /verif/check "$CK" --no-evidence "$@" 2>&1)
rc=$?
echo "$ID x $CK: rc=$rc $(echo "$out" | grep -c '^VIOLATION') violations; sigs: $(echo "$out" | grep -o 'sig=[^ ]*' | sort | uniq -c | tr '\n' ' ') | $(echo "$out" | grep 'runs=' | sed 's/.*runs=/runs=/' | cut -c1-60)"
rm -rf "$D"
exit $rc
