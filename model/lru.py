"""Executable reference model of a caching loader's cache (C14).

An LRU map ``key -> Entry`` of fixed capacity where ``key = (namespace, name)``.
It does not predict *when* the loader reads storage; the engine feeds it what
the storage seam observed (``read`` or not) for each lookup, and the model
constrains what may be retained and served:

* every lookup of ``k`` makes ``k`` most-recently-used if it is present;
* a successful storage read (re)inserts ``k`` at the MRU end, evicting the LRU
  entry when ``k`` is new and the map is full;
* a lookup served *without* a storage read must find ``k`` in the map;
* after a reload that FAILED the stale entry may be kept or dropped: the engine
  follows both successor states (a small set of possible cache states).
"""

from __future__ import annotations

from collections import OrderedDict
from dataclasses import dataclass


@dataclass(frozen=True)
class Entry:
    ver: int
    loc: str
    mtime: float | None
    fresh: bool  # the source carries freshness information


class LruModel:
    def __init__(self, capacity: int) -> None:
        self.capacity = capacity
        self.od: OrderedDict[tuple, Entry] = OrderedDict()
        self.evictions = 0
        self.last_victim: tuple | None = None

    def get(self, key) -> Entry | None:
        return self.od.get(key)

    def touch(self, key) -> None:
        if key in self.od:
            self.od.move_to_end(key)

    def insert(self, key, entry: Entry) -> tuple | None:
        victim = None
        if key in self.od:
            self.od.move_to_end(key)
        elif len(self.od) >= self.capacity:
            victim, _ = self.od.popitem(last=False)
            self.evictions += 1
            self.last_victim = victim
        self.od[key] = entry
        return victim

    def copy(self) -> "LruModel":
        c = LruModel(self.capacity)
        c.od = OrderedDict(self.od)
        c.evictions = self.evictions
        c.last_victim = self.last_victim
        return c

    def reset(self, items=()) -> None:
        self.od.clear()
        for k, e in items:
            self.insert(k, e)

    def state(self, live_of=None) -> str:
        """Abstract state: keys in LRU->MRU order (+ stale flag if known)."""
        parts = []
        for k, e in self.od.items():
            flag = ""
            if live_of is not None:
                lv = live_of(k)
                flag = "" if lv == (e.ver, e.loc) else "*"
            parts.append(f"{k[0] or ''}/{k[1]}{flag}")
        return ",".join(parts)
