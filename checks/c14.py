"""C14 — caching loaders are transparent.  See DESIGN.md section 6.14.

A history of load / render / modify / delete / outage / concurrent-batch steps is
run against a real caching loader; beside it stand its real non-caching
counterpart over the same storage and an LRU reference model that *follows* the
storage reads the seam observed.  Sequential steps are judged exactly (R1..R4);
concurrent batches are judged for safety only and the model is re-synchronised
by flushing the cache with filler names.
"""

from __future__ import annotations

import asyncio
import random
import re

from model.lru import Entry
from model.lru import LruModel
from sim import clock as simclock
from sim import common
from sim import simfs
from sim.common import Inconclusive
from sim.common import canon_call
from sim.common import canon_exc
from sim.drops import DropCtl
from sim.drops import wrap_data
from sim.loop import park
from sim.runner import digest
from sim import sched as simsched

PROP = "C14"
IDENT_RE = re.compile(r"<([^#<>\s]+)#(\d+)@([^ >]+)")
TOKEN_RE = re.compile(r"<([^#<>\s]+)#(\d+)@([^ >]+) u=([^ >]*) g=([^ >]*) n=([^ >]*) p=([^ >]*)>")

STORE_KINDS = ("dict", "dictp", "fs", "fs2", "fsx", "fs+d", "dd", "ns", "ns+f", "ns+af")
CWD_OFFSET = 0.0005   # mtimes of files under the second working directory never equal those of the first
NAME_POOL = ("a", "sub/d", "b", "c")
TENANTS = ("t1", "t2")
NS_VALUES = ("t1", "t2", 0)   # a falsy namespace value is still a namespace


class Violation(Exception):
    def __init__(self, kind: str, **detail) -> None:
        super().__init__(kind)
        self.kind = kind
        self.detail = detail


# ----------------------------------------------------------------- sources
def make_source(name: str, loc: str, ver: int, struct: dict) -> str:
    ident = f"{name}#{ver}@{loc}"
    head = "<" + ident + " u={{ user }} g={{ gv }} n={{ tenant }} p={{ prof.name }}>{{ matter_ns }}\u00e9"
    k = struct.get("k", "plain")
    t = struct.get("t", "a")
    if k == "plain":
        src = head
    elif k == "inc":
        src = head + "{% include '" + t + "' %}"
    elif k == "incw":
        src = head + "{% include '" + t + "' with user as who %}"
    elif k == "ren":
        src = head + "{% render '" + t + "' %}"
    elif k == "renw":
        src = head + "{% render '" + t + "', gv: 'R' %}"
    elif k == "ext":
        src = ("{% extends '" + t + "' %}{% block body %}" + head
               + "{{ block.super }}{% endblock %}")
    elif k == "base":
        src = head + "[{% block body %}base{% endblock %}]"
    elif k == "ren_ns":      # namespace passed as a render argument: nested partial loads inside use it
        src = head + "{% render '" + t + "', tenant: '" + struct.get("ns", "t2") + "' %}"
    elif k == "inc_ns":      # include keyword arguments are locals: the cache key must not change
        src = head + "{% include '" + t + "', tenant: '" + struct.get("ns", "t2") + "' %}"
    elif k == "shadow_assign":   # a LOCAL variable named like the namespace key must not change the cache key
        src = head + "{% assign tenant = '" + struct.get("ns", "t2") + "' %}{% include '" + t + "' %}"
    elif k == "shadow_for":
        src = head + "{% for tenant in tenant_list %}{% render '" + t + "' %}{% endfor %}"
    elif k == "shadow_with":
        src = head + "{% with tenant: '" + struct.get("ns", "t1") + "' %}{% include '" + t + "' %}{% endwith %}"
    elif k == "shadow_capture":
        src = head + "{% capture tenant %}" + struct.get("ns", "t2") + "{% endcapture %}{% render '" + t + "' %}"
    else:
        raise ValueError(k)
    cut = struct.get("cut")
    if cut is not None:
        lo = src.index(ident) + len(ident) + 1
        src = src[: lo + int(cut * (len(src) - lo))]
    return src


def parse_ident(text: str):
    m = IDENT_RE.search(text)
    if not m:
        return None
    return (m.group(1), int(m.group(2)), m.group(3))


# ------------------------------------------------------------------ world
class Lookup:
    __slots__ = ("name", "key", "task", "reads0", "read", "served", "error", "live",
                 "b_dec", "e_dec", "b_w", "e_w", "ctx", "kwargs", "seq", "ref_error",
                 "live_end", "served_mtime", "all_at_begin")

    def brief(self):
        return {"name": self.name, "key": list(self.key), "task": self.task,
                "read": self.read, "served": self.served, "error": self.error,
                "live": self.live}


class World:
    def __init__(self, cfg: dict, segs: common.Segments) -> None:
        from liquid2 import Environment

        from sim import storage

        self.cfg = cfg
        self.segs = segs
        self.clock = simclock.CLOCK
        kind = cfg["store"]
        self.nskey = cfg["nskey"]
        if kind == "dict":
            self.store = storage.DictStore(1, parked=False)
        elif kind == "dictp":
            self.store = storage.DictStore(1, parked=True)
        elif kind == "dd":
            self.store = storage.DictStore(2, parked=cfg.get("parked", False))
        elif kind == "fs":
            self.store = storage.FsStore(1, encoding=cfg.get("encoding", "utf-8"))
        elif kind == "fsrel":
            self.store = storage.FsStore(1, encoding=cfg.get("encoding", "utf-8"), relative=True)
        elif kind == "fs2":
            self.store = storage.FsStore(2, encoding=cfg.get("encoding", "utf-8"))
        elif kind == "fsx":
            self.store = storage.FsStore(1, ext=".liquid", encoding=cfg.get("encoding", "utf-8"))
        elif kind == "fs+d":
            self.store = storage.FsStore(1, with_dict=True, parked=cfg.get("parked", False),
                                         encoding=cfg.get("encoding", "utf-8"))
        elif kind.startswith("ns"):
            fr = {"ns": "none", "ns+f": "sync", "ns+af": "async"}[kind]
            self.store = storage.NsStoreWrap(self.nskey, fr, matter=cfg.get("matter", False))
            self.store.thread_safe = bool(cfg.get("thread_safe"))  # ThreadSafeLRUCache, single-threaded use
        else:
            raise ValueError(kind)
        self.store.activate()
        self.capacity = cfg["capacity"]
        self.auto_reload = cfg["auto_reload"]
        self.loader = self.store.make_loader(
            True, auto_reload=self.auto_reload, namespace_key=self.nskey,
            capacity=self.capacity)
        self.cloader = self.store.make_loader(False)
        world = self

        class ObsEnv(Environment):
            def get_template(self, name, *, globals=None, context=None, **kwargs):  # noqa: A002
                lk = world.begin(name, context, kwargs)
                try:
                    t = super().get_template(name, globals=globals, context=context, **kwargs)
                except BaseException as exc:  # noqa: BLE001
                    world.end(lk, None, exc)
                    raise
                world.end(lk, t, None)
                return t

            async def get_template_async(self, name, *, globals=None, context=None, **kwargs):  # noqa: A002
                lk = world.begin(name, context, kwargs)
                try:
                    t = await super().get_template_async(
                        name, globals=globals, context=context, **kwargs)
                except BaseException as exc:  # noqa: BLE001
                    world.end(lk, None, exc)
                    raise
                world.end(lk, t, None)
                return t

        eg = dict(cfg.get("env_globals") or {})
        self.env = ObsEnv(loader=self.loader, globals=dict(eg))
        self.cenv = Environment(loader=self.cloader, globals=dict(eg))
        self.envs = [self.env]
        self.cenvs = [self.cenv]
        self.env_g = [dict(eg)]   # env globals as of now (the plan itself is never mutated by a run)
        if cfg.get("env2") is not None:
            # a second Environment of the same configuration, other globals, SHARING the caching loader
            eg2 = dict(cfg["env2"])
            self.envs.append(ObsEnv(loader=self.loader, globals=dict(eg2)))
            self.cenvs.append(Environment(loader=self.cloader, globals=dict(eg2)))
            self.env_g.append(dict(eg2))
        self.model = LruModel(self.capacity)
        self.models: list[LruModel] = [self.model]   # every cache state still possible
        self.model_known = True
        self.lookups: list[Lookup] = []
        self.seq = 0
        self.vers: dict[str, int] = {}          # loc -> latest version number
        self.next_ver = 0
        self.content_of: dict[tuple[str, int], tuple[str, float | None]] = {}
        self.handles: dict[int, tuple] = {}
        self.counters: dict[str, int] = {}
        self.states: set[str] = set()
        self.transitions: set[str] = set()
        self.filler_n = 0
        self.namespaces_seen: set = set()
        self.wlog: list[tuple[int, str, int | None, float | None]] = []  # (wseq, loc, ver, mtime)
        self.fault_w: list[tuple[int, str]] = []  # (wseq, kind) delete/unavail events
        self.cur_loop = None
        self.pending: Violation | None = None
        self.tdecisions: dict[str, list] = {}
        self.tdecisions_in: dict | None = None
        self.trace: list = []

    def count(self, k: str, n: int = 1) -> None:
        self.counters[k] = self.counters.get(k, 0) + n

    # ------------------------------------------------------------ storage
    def locs(self, name: str) -> list[str]:
        if self.cfg["store"].startswith("ns"):
            return [f"{t}/{name}" for t in (*TENANTS, "_", "0")]
        return self.store.locs(name)

    def write(self, loc: str, name: str, struct: dict, mt: str) -> int:
        self.next_ver += 1
        ver = self.next_ver
        src = make_source(name, loc, ver, struct)
        old = self.store.mtime(loc)
        is_ns = self.cfg["store"].startswith("ns")
        if is_ns:
            self.store.write(loc, src, same_stamp=(mt == "same"))
            mtime = self.store.mtime(loc)
        else:
            now = self.clock.now
            if old is None or mt == "adv":
                mtime = now if (old is None or now != old) else old + 1.0
            elif mt == "same":
                mtime = old
            else:  # back
                mtime = old - 10.0
            if old is None or mt == "adv":
                if self.other_cwd_class(loc):
                    mtime = float(int(mtime * 1000)) / 1000 + CWD_OFFSET
            self.store.write(loc, src, mtime)
        self.vers[loc] = ver
        self.content_of[(loc, ver)] = (src, mtime)
        self.wlog.append((self.store.write_seq, loc, ver, mtime))
        return ver

    def other_cwd_class(self, loc: str) -> bool:
        from sim.storage import CWDS
        return loc.startswith(CWDS[1] + "/")

    def other_cwd(self, loc: str) -> bool:
        """``loc`` lies under a working directory that is not the current one."""
        if not getattr(self.store, "relative", False):
            return False
        return loc.startswith("/simfs/cwd") and not loc.startswith(self.store.current_tree() + "/")

    def delete(self, loc: str) -> None:
        self.store.delete(loc)
        self.vers.pop(loc, None)
        self.wlog.append((self.store.write_seq, loc, None, None))
        self.fault_w.append((self.store.write_seq, "delete"))

    # ------------------------------------------------------- observation
    def key_of(self, name, context, kwargs):
        if not self.nskey:
            return (None, name)
        if self.nskey in kwargs:
            return (str(kwargs[self.nskey]), name)
        if context is not None:
            try:
                return (str(context.globals[self.nskey]), name)
            except KeyError:
                pass
        return (None, name)

    def canon_name(self, name: str) -> str:
        """The plan's name for a requested spelling ('./a', 'sub//d', 'a.liquid' with ext)."""
        import posixpath

        n = posixpath.normpath(name)
        ext = getattr(self.store, "ext", None)
        if ext and n.endswith(ext):
            n = n[: -len(ext)]
        return n

    def live(self, name, context, kwargs):
        rl = self.store.rlog
        rl.observer += 1
        try:
            try:
                src = self.cloader.get_source(self.cenv, name, context=context, **kwargs)
            except Inconclusive:
                raise
            except BaseException as exc:  # noqa: BLE001
                return ("err", canon_exc(exc)[1])
        finally:
            rl.observer -= 1
        ident = parse_ident(src.source)
        if ident is None:
            return ("ok", -1, "?", None)
        return ("ok", ident[1], ident[2], self.store.mtime(ident[2]))

    def _dec(self) -> int:
        return self.cur_loop.decision_no if self.cur_loop is not None else 0

    def begin(self, name, context, kwargs) -> Lookup:
        lk = Lookup()
        self.seq += 1
        lk.seq = self.seq
        lk.name = name
        lk.ctx = context
        lk.kwargs = {k: v for k, v in kwargs.items() if k != "tag"}
        lk.key = self.key_of(name, context, kwargs)
        from sim.storage import _task
        lk.task = _task()
        lk.reads0 = self.store.rlog.count(lk.task)
        lk.read = False
        lk.served = None
        lk.error = None
        lk.live = self.live(name, context, kwargs)
        lk.b_dec = self._dec()
        lk.b_w = self.store.write_seq
        lk.e_dec = lk.e_w = None
        lk.ref_error = None
        lk.live_end = None
        lk.served_mtime = None
        # every stored source of this name, whichever location currently wins the resolution
        lk.all_at_begin = []
        if self.cur_loop is not None and not self.cfg["store"].startswith("ns"):
            try:
                lk.all_at_begin = [(self.vers[loc], loc) for loc in self.locs(self.canon_name(name))
                                   if loc in self.vers]
            except Exception:  # noqa: BLE001
                lk.all_at_begin = []
        self.lookups.append(lk)
        return lk

    def end(self, lk: Lookup, t, exc) -> None:
        lk.read = self.store.rlog.count(lk.task) > lk.reads0
        lk.e_dec = self._dec()
        lk.e_w = self.store.write_seq
        if exc is not None:
            if isinstance(exc, (SystemExit, KeyboardInterrupt)):
                return
            lk.error = canon_exc(exc)[1]
            if lk.read:
                # what the counterpart makes of the same lookup right now
                # (e.g. a syntax error in torn content)
                rl = self.store.rlog
                rl.observer += 1
                try:
                    out = canon_call(self.cenv.get_template, lk.name, context=lk.ctx,
                                     **lk.kwargs)
                finally:
                    rl.observer -= 1
                lk.ref_error = out[1] if out[0] == "err" else "ok"
        else:
            ident = parse_ident(str(t))
            lk.served = (ident[1], ident[2]) if ident else (-1, "?")
            lk.served_mtime = self.store.mtime(lk.served[1]) if ident else None
            if ident and ident[0] != self.canon_name(lk.name) and self.pending is None:
                # raised at the next judgement point, not through the library's frames
                self.pending = Violation("wrong_template", lookup=lk.brief(), served_name=ident[0])
            if self.cur_loop is not None:
                lk.live_end = self.live(lk.name, lk.ctx, lk.kwargs)
        lk.ctx = None

    def take(self) -> list[Lookup]:
        if self.pending is not None:
            p, self.pending = self.pending, None
            raise p
        l, self.lookups = self.lookups, []
        self.trace.append([lk.brief() for lk in l])
        return l

    # ---------------------------------------------------------- judging
    def check_capacity(self) -> None:
        n = len(self.loader.cache)
        if n > self.capacity:
            raise Violation("capacity", size=n, capacity=self.capacity)

    def stale_permitted(self, e: Entry, live) -> str | None:
        """Return the reason staleness is permitted, else None."""
        if not self.auto_reload:
            return "auto_reload_off"
        if not e.fresh:
            return "no_freshness"
        if self.store.rlog.unavailable:
            return "freshness_unavailable"
        if live[0] == "ok" and live[2] == e.loc and live[3] == e.mtime:
            return "same_mtime"
        return None

    def judge_seq(self, lookups: list[Lookup]) -> list[Lookup]:
        """Exact judgement of the lookups of one sequential step against the SET of cache
        states the reference model allows; updates that set.

        The model is nondeterministic in one place only: after a reload that FAILED, the
        stale entry may be kept (what the library does) or dropped (equally transparent).
        A lookup is a violation iff it contradicts every state still possible.
        Returns the lookups that were served stale (permitted)."""
        stale: list[Lookup] = []
        for lk in lookups:
            self.namespaces_seen.add(lk.key[0])
            if not self.model_known:
                self._judge_unknown(lk, stale)
                continue
            survivors: list[LruModel] = []
            first_contra: Violation | None = None
            notes: dict | None = None
            for m in self.models:
                try:
                    succ, n = self._step_model(m, lk)
                except Violation as v:
                    if first_contra is None:
                        first_contra = v
                    continue
                if notes is None:
                    notes = n
                for s2 in succ:
                    if all(s2.od != o.od or list(s2.od) != list(o.od) for o in survivors):
                        survivors.append(s2)
            if not survivors:
                raise first_contra  # contradicts every admissible cache state
            if len(survivors) > 24:
                # too many possibilities to follow: stop judging retention until the next flush
                survivors = survivors[:1]
                self.model_known = False
                self.count("model_state_set_overflow")
            self.models = survivors
            self.model = survivors[0]
            for k, v in (notes or {}).get("count", {}).items():
                self.count(k, v)
            if (notes or {}).get("stale"):
                stale.append(lk)
            post = self.model.state()
            self.states.add(post)
            self.transitions.add(f"{(notes or {}).get('pre', '?')}>{'R' if lk.read else 'H'}:{lk.key[0] or ''}/{lk.key[1]}")
            if len(self.models) > 1:
                self.count("model_states_gt1")
        return stale

    def _judge_unknown(self, lk: Lookup, stale: list) -> None:
        """Retention unknown (right after a concurrent batch): errors and content only."""
        if lk.error is not None:
            self.count("lookup_error")
            self.count("err:" + lk.error)
            if lk.live[0] == "err":
                if lk.live[1] != lk.error:
                    raise Violation("wrong_error", lookup=lk.brief())
            elif not lk.read:
                raise Violation("spurious_error", lookup=lk.brief())
            elif lk.ref_error != lk.error:
                raise Violation("wrong_error", lookup=lk.brief(), expected=lk.ref_error)
            return
        self.count("storage_read" if lk.read else "hit")
        fresh = lk.live[0] == "ok" and lk.served == (lk.live[1], lk.live[2])
        if not fresh:
            if lk.read:
                raise Violation("wrong_content", lookup=lk.brief(),
                                why="read storage but served a version that is not live")
            stale.append(lk)

    def _step_model(self, m: LruModel, lk: Lookup):
        """One lookup against one possible cache state. Returns (successor states, notes)
        or raises Violation if the observation is impossible in this state."""
        cnt: dict[str, int] = {}

        def c(k):
            cnt[k] = cnt.get(k, 0) + 1

        e = m.get(lk.key)
        in_model = e is not None
        pre = m.state()
        notes = {"count": cnt, "pre": pre, "stale": False}
        if lk.error is not None:
            c("lookup_error")
            c("err:" + lk.error)
            if lk.live[0] == "err":
                if lk.live[1] != lk.error:
                    raise Violation("wrong_error", lookup=lk.brief())
            else:
                # content parse errors surface from the lookup too
                if not lk.read:
                    raise Violation("spurious_error", lookup=lk.brief())
                if lk.ref_error != lk.error:
                    raise Violation("wrong_error", lookup=lk.brief(), expected=lk.ref_error)
            keep = m.copy()
            keep.touch(lk.key)
            succ = [keep]
            if in_model:
                # the loader tried to replace a cached entry and failed (an error on a cached key
                # means it did not simply serve the entry): the entry may survive or be dropped
                c("reload_failed")
                drop = m.copy()          # the stale entry may be dropped after a failed reload
                drop.od.pop(lk.key, None)
                succ.append(drop)
            return succ, notes
        fresh = lk.live[0] == "ok" and lk.served == (lk.live[1], lk.live[2])
        if not lk.read:
            c("hit")
            if not in_model:
                raise Violation("over_retention", lookup=lk.brief(), model=pre, capacity=self.capacity)
        else:
            c("storage_read")
            if in_model:
                live_same = lk.live[0] == "ok" and (e.ver, e.loc) == (lk.live[1], lk.live[2])
                c("early_reload" if live_same else "reload")
        if not fresh:
            if lk.read:
                # it read storage and still produced something that is not live
                raise Violation("wrong_content", lookup=lk.brief(), model=pre,
                                why="read storage but served a version that is not live")
            if e is None or (e.ver, e.loc) != lk.served:
                raise Violation("wrong_content", lookup=lk.brief(), model=pre,
                                entry=[e.ver, e.loc] if e else None)
            why = self.stale_permitted(e, lk.live)
            if why is None:
                sub = "detectable"
                if self.other_cwd(e.loc):
                    sub = "cwd_changed"   # a relative search path names another file now
                elif (lk.live[0] == "ok" and lk.live[2] != e.loc
                        and self.store.mtime(e.loc) == e.mtime):
                    sub = "shadowed"
                elif lk.live[0] == "err" and self.store.mtime(e.loc) == e.mtime:
                    sub = "shadowed_err"
                raise Violation("stale_served", sub=sub, lookup=lk.brief(), model=pre)
            c("stale_served:" + why)
            notes["stale"] = True
        elif not lk.read and e is not None and (e.ver, e.loc) != lk.served:
            raise Violation("wrong_content", lookup=lk.brief(), model=pre,
                            why="served live content the model never saw loaded")
        nxt = m.copy()
        nxt.touch(lk.key)
        if lk.read:
            ev0 = nxt.evictions
            nxt.insert(lk.key, Entry(lk.served[0], lk.served[1], self.store.mtime(lk.served[1]),
                                     self.store.has_freshness(lk.served[1])))
            if nxt.evictions > ev0:
                c("eviction")
        return [nxt], notes

    # ------------------------------------------------------------- twins
    def with_clone(self, stale: list[Lookup]):
        """Context manager: counterpart env over a clone holding stale versions."""
        world = self

        class _Ctx:
            def __enter__(self_inner):
                world.store.rlog.observer += 1
                self_inner.clone = None
                if stale:
                    c = world.store.clone()
                    for lk in stale:
                        ver, loc = lk.served
                        src, mtime = world.content_of[(loc, ver)]
                        if world.other_cwd(loc):
                            # (permitted-stale entry loaded under another working directory: the
                            # counterpart finds that source where the relative path points now)
                            loc = world.store.current_tree() + loc[len("/simfs/cwdA"):]
                        if world.cfg["store"].startswith("ns"):
                            c.write(loc, src)
                        else:
                            c.write(loc, src, mtime if mtime is not None else 0.0)
                            if hasattr(c, "fs") and not loc.startswith("d0:"):
                                parts = loc.split("/")   # un-block a directory replaced by a file
                                for i in range(3, len(parts)):
                                    c.fs.files.pop("/".join(parts[:i]), None)
                            # the counterpart must resolve the name to the served source
                            for l2 in world.locs(lk.name):
                                if l2 != loc:
                                    c.delete(l2)
                    c.rlog.unavailable = False
                    if hasattr(c, "fs"):
                        c.fs.unavailable = False
                    c.activate()
                    self_inner.clone = c
                    self_inner.saved = world.cenv.loader
                    ld = c.make_loader(False)
                    for ce in world.cenvs:
                        ce.loader = ld
                return self_inner

            def __exit__(self_inner, *a):
                world.store.rlog.observer -= 1
                if self_inner.clone is not None:
                    for ce in world.cenvs:
                        ce.loader = self_inner.saved
                    world.store.activate()
                return False

        return _Ctx()

    def data_for(self, d: dict, tag: str) -> dict:
        raw = {"user": d["user"], "prof": {"name": d["user"]}, "tenant_list": list(TENANTS)}
        if d.get("tenant") is not None:
            raw["tenant"] = d["tenant"]
        return wrap_data(raw, {"mode": "all"}, DropCtl(tag))


# ------------------------------------------------------------- execution
def _kw(w: World, op: dict) -> dict:
    return {w.nskey: op["ns_kw"]} if (w.nskey and op.get("ns_kw") is not None) else {}


def do_load(w: World, op: dict):
    """Sequential load.  Returns (outcome, template|None, twin|None, stale, known)."""
    kw = _kw(w, op)
    g = op.get("g")
    e = op.get("e", 0) if len(w.envs) > 1 else 0
    env, cenv = w.envs[e], w.cenvs[e]
    if e:
        w.count("second_env_load")
    direct = bool(op.get("direct"))   # BaseLoader.load()/load_async() called by the application itself
    if op.get("ctx") is not None:
        # the application passes a render context of its own (as the include/render tags do)
        from liquid2 import RenderContext

        kw = {**kw, "context": RenderContext(env.from_string("", name="ctxholder"), global_data=dict(op["ctx"]))}
        ckw = {**_kw(w, op), "context": RenderContext(cenv.from_string("", name="ctxholder"),
                                                       global_data=dict(op["ctx"]))}
        w.count("app_context_passed")
    else:
        ckw = kw
    if op["mode"] == "s":
        try:
            if direct:
                lk = w.begin(op["name"], kw.get("context"), {k: v for k, v in kw.items() if k != "context"})
                try:
                    t0 = w.loader.load(env, op["name"], globals=g, **kw)
                except BaseException as exc:  # noqa: BLE001
                    w.end(lk, None, exc)
                    raise
                w.end(lk, t0, None)
                out = ("ok", t0)
            else:
                out = ("ok", env.get_template(op["name"], globals=g, **kw))
        except Inconclusive:
            raise
        except BaseException as exc:  # noqa: BLE001
            out = canon_exc(exc)
    else:
        async def co():
            if direct:
                lk = w.begin(op["name"], kw.get("context"), {k: v for k, v in kw.items() if k != "context"})
                try:
                    t0 = await w.loader.load_async(env, op["name"], globals=g, **kw)
                except BaseException as exc:  # noqa: BLE001
                    w.end(lk, None, exc)
                    raise
                w.end(lk, t0, None)
                return t0
            return await env.get_template_async(op["name"], globals=g, **kw)
        out = run_async(w, co(), op)
    lookups = w.take()
    stale = w.judge_seq(lookups)
    w.check_capacity()
    if _outage_error(w, lookups, out):
        return None, None
    with w.with_clone(stale):
        if direct:
            tw = canon_call(cenv.loader.load, cenv, op["name"], globals=g, **ckw)
        else:
            tw = canon_call(cenv.get_template, op["name"], globals=g, **ckw)
    if out[0] == "ok":
        if tw[0] != "ok":
            raise Violation("load_mismatch", got="ok", expected=tw, lookups=[l.brief() for l in lookups])
        t, twin = out[1], tw[1]
        a = (t.name, str(t.path), t.full_name())
        b = (twin.name, str(twin.path), twin.full_name())
        if a != b:
            raise Violation("template_identity", got=a, expected=b)
        return t, twin
    if tw[0] == "ok" or tw[1:] != out[1:]:
        if not (tw[0] == "err" and tw[1] == out[1] and out[1].startswith("OSError")):
            raise Violation("load_mismatch", got=out, expected=tw if tw[0] == "err" else "ok",
                            lookups=[l.brief() for l in lookups])
    return None, None


def _outage_error(w: World, lookups, out) -> bool:
    """During an outage a lookup that failed with the counterpart's own OSError
    (already judged) decides the step: it must fail with that class."""
    if not w.store.rlog.unavailable:
        return False
    errs = [lk.error for lk in lookups if lk.error and lk.error.startswith("OSError")]
    if not errs:
        return False
    if out[0] != "err" or out[1] != errs[0]:
        raise Violation("outage_error_swallowed", got=out, lookup_error=errs[0])
    w.count("outage_step_failed")
    return True


def run_async(w: World, coro, op: dict):
    def on_dec():
        w.check_capacity()

    loop = w.segs.new_loop(on_dec, sid=str(op["id"]))
    w.cur_loop = loop
    try:
        try:
            return ("ok", common.norm(loop.run_until_complete(coro)))
        except Inconclusive:
            raise
        except Violation:
            raise
        except BaseException as exc:  # noqa: BLE001
            if isinstance(exc, (SystemExit, KeyboardInterrupt)):
                raise
            return canon_exc(exc)
    finally:
        w.cur_loop = None
        w.segs.finish(loop)
        common._drain(loop)


def do_render(w: World, op: dict, t, twin):
    d = op["data"]
    if op["mode"] == "s":
        out = canon_call(t.render, **w.data_for(d, "sys"))
    else:
        async def co():
            return await t.render_async(**w.data_for(d, "sys"))
        out = run_async(w, co(), op)
    lookups = w.take()
    stale = w.judge_seq(lookups)
    w.check_capacity()
    if _outage_error(w, lookups, out):
        return
    seen: dict[str, tuple] = {}
    for lk in lookups:
        res = lk.served if lk.served is not None else ("err", lk.error)
        cn = w.canon_name(lk.name)
        if res is not None:
            if cn in seen and seen[cn] != res:
                # a permitted-stale entry was evicted and re-read in the middle of this render
                # (recursive partials, small capacity): one name, two admissible versions.
                # Every lookup has been judged; the counterpart can serve only one version per
                # name, so only attribution (R4) is checked on the text.
                w.count("seq_diff_skipped_ambiguous")
                if out[0] == "ok":
                    check_tokens(out[1], d, op.get("g_bound"), op.get("env_g_bound", w.env_g[0]))
                return
            seen[cn] = res
    with w.with_clone(stale):
        exp = canon_call(twin.render, **w.data_for(d, "ref"))
    w.trace.append([out, exp])
    if out != exp:
        raise Violation("output_mismatch", got=out, expected=exp,
                        lookups=[l.brief() for l in lookups])
    w.count("render_ok" if out[0] == "ok" else "render_err")


def check_tokens(out_text: str, d: dict, g: dict | None, env_g: dict) -> None:
    """R4 for concurrent steps: every token carries this caller's user/globals."""
    want_g = (g or {}).get("gv", env_g.get("gv", ""))
    if isinstance(want_g, bool):
        want_g = "true" if want_g else "false"
    else:
        want_g = str(want_g)
    for m in TOKEN_RE.finditer(out_text):
        u, gv, p = m.group(4), m.group(5), m.group(7)
        if u != d["user"] or p != d["user"]:
            raise Violation("foreign_data", token=m.group(0), user=d["user"])
        if gv not in (want_g, "R"):
            raise Violation("foreign_globals", token=m.group(0), want=want_g)


def do_par(w: World, op: dict):
    """Concurrent batch: safety only (R3 on every decision, R4, attribution of versions)."""
    tasks = op["tasks"]
    results: dict[int, tuple] = {}
    model_before: dict = {}
    if w.model_known:
        for m in w.models:
            for k, e in m.od.items():
                model_before.setdefault(k, []).append(e)

    async def lr(i, tk):
        kw = _kw(w, tk)
        e = tk.get("e", 0) if len(w.envs) > 1 else 0
        if tk.get("sync"):
            # a coroutine calling the SYNCHRONOUS API while the event loop is running (legal: the
            # sync calls never touch the loop), between other callers' awaits
            await park("pre")
            w.count("sync_call_inside_running_loop")
            t = w.envs[e].get_template(tk["name"], globals=tk.get("g"), **kw)
            await park("gap")
            return t.render(**w.data_for(tk["data"], f"T{i}"))
        t = await w.envs[e].get_template_async(tk["name"], globals=tk.get("g"), **kw)
        await park("gap")
        return await t.render_async(**w.data_for(tk["data"], f"T{i}"))

    async def writer(i, tk):
        await park("fault:w")
        apply_mutation(w, tk["w"])

    async def outage(i, tk):
        await park("fault:down")
        w.store.set_unavailable(True)
        w.fault_w.append((w.store.write_seq, "unavail"))
        w.count("F3_outage_in_batch")
        await park("fault:up")
        w.store.set_unavailable(False)

    cancelled_targets: set[int] = set()

    async def canceller(i, tk, handles):
        await park("fault:cancel")
        h = handles.get(tk["target"])
        if h is not None and not h.done():
            h.cancel()
            cancelled_targets.add(tk["target"])
            w.count("F8_cancel")

    async def batch():
        loop = asyncio.get_running_loop()
        handles: dict[int, asyncio.Task] = {}
        allt = []
        for i, tk in enumerate(tasks):
            if tk["t"] == "lr":
                handles[i] = loop.create_task(lr(i, tk), name=f"T{i}")
                allt.append(handles[i])
        for i, tk in enumerate(tasks):
            if tk["t"] == "w":
                allt.append(loop.create_task(writer(i, tk), name=f"W{i}"))
            elif tk["t"] == "down":
                allt.append(loop.create_task(outage(i, tk), name=f"D{i}"))
            elif tk["t"] == "cancel":
                allt.append(loop.create_task(canceller(i, tk, handles), name=f"C{i}"))
        await asyncio.gather(*allt, return_exceptions=True)
        for i, h in handles.items():
            if h.cancelled():
                results[i] = ("err", "CancelledError", "", None)
            elif h.exception() is not None:
                results[i] = canon_exc(h.exception())
            else:
                results[i] = ("ok", h.result())

    fw0 = len(w.fault_w)
    if op.get("threads"):
        _thread_batch(w, op, tasks, results)
    else:
        out = run_async(w, batch(), op)
        w.store.set_unavailable(False)
        if out[0] != "ok":
            raise Violation("batch_failed", outcome=out)
    lookups = w.take()
    w.trace.append(sorted(results.items()))
    faults = w.fault_w[fw0:]
    w.count("par_batches")
    by_task: dict[str, list[Lookup]] = {}
    for lk in lookups:
        by_task.setdefault(lk.task, []).append(lk)
    ended = sorted((lk for lk in lookups if lk.e_dec is not None), key=lambda l: (l.e_dec, l.seq))
    if len({lk.task for lk in lookups}) > 1:
        w.count("par_overlapping")
    misses = [lk for lk in lookups if lk.read]
    if len({(lk.key) for lk in misses}) < len(misses):
        w.count("concurrent_same_key_miss")
    for i, tk in enumerate(tasks):
        if tk["t"] != "lr":
            continue
        res = results.get(i)
        if res is None:
            raise Violation("batch_lost_task", task=i)
        mine = by_task.get(f"T{i}", [])
        ambiguous = False
        seen: dict[str, tuple] = {}
        stale: list[Lookup] = []
        had_err = False
        for lk in mine:
            w.namespaces_seen.add(lk.key[0])
            window_faults = [k for (s, k) in faults if lk.b_w < s <= (lk.e_w if lk.e_w is not None else 1 << 60)]
            any_faults = [k for (s, k) in faults]
            if lk.error is not None:
                had_err = True
                if lk.error == "CancelledError":
                    continue
                if lk.live[0] == "err" and lk.live[1] == lk.error:
                    continue
                if any_faults and (lk.error == "TemplateNotFoundError" or lk.error.startswith("OSError")):
                    continue
                if lk.ref_error == lk.error:
                    continue
                # writes in the window may have produced torn/erroneous content
                if any(s for (s, loc, ver, mt) in w.wlog if lk.b_w < s <= (lk.e_w or 1 << 60)):
                    continue
                raise Violation("conc_wrong_error", lookup=lk.brief(), faults=window_faults)
            if lk.served is None:
                continue
            live_set = set()
            if lk.live[0] == "ok":
                live_set.add((lk.live[1], lk.live[2]))
            if lk.live_end is not None and lk.live_end[0] == "ok":
                live_set.add((lk.live_end[1], lk.live_end[2]))
            removed_in_window = False
            for (s, loc, ver, mt) in w.wlog:
                if lk.b_w < s <= (lk.e_w if lk.e_w is not None else 1 << 60):
                    if ver is not None:
                        live_set.add((ver, loc))
                    else:
                        removed_in_window = True
            if removed_in_window:
                # a deletion inside the window can make a later search path / loader win
                live_set.update(lk.all_at_begin)
            if lk.served in live_set:
                pass
            else:
                cached = set()
                for e0 in model_before.get(lk.key, ()):
                    cached.add((e0.ver, e0.loc))
                for o in ended:
                    if o is lk:
                        break
                    if o.key == lk.key and o.served is not None:
                        cached.add(o.served)
                if not w.model_known:
                    cached.add(lk.served)  # nothing known about the cache before this batch
                if lk.served not in cached:
                    raise Violation("conc_wrong_content", lookup=lk.brief(),
                                    live=sorted(live_set), cached=sorted(cached))
                ver, loc = lk.served
                permitted = (not w.auto_reload) or (not w.store.has_freshness(loc)) or any_faults
                if not permitted:
                    mt_served = w.content_of.get((loc, ver), (None, None))[1]
                    same = any(w.content_of.get((l2, v2), (None, None))[1] == mt_served and l2 == loc
                               for (v2, l2) in live_set)
                    if not same:
                        if (all(l2 != loc for (_, l2) in live_set) and live_set
                                and lk.served_mtime == mt_served and not w.other_cwd(loc)):
                            # the entry's own file is unchanged but the name now resolves to an
                            # earlier search path / loader: the recorded known finding
                            raise Violation("stale_served", sub="shadowed", lookup=lk.brief(),
                                            live=sorted(live_set), concurrent=True)
                        raise Violation("conc_stale_served", lookup=lk.brief(),
                                        live=sorted(live_set))
                w.count("conc_stale_permitted")
                stale.append(lk)
            cn = w.canon_name(lk.name)   # two spellings of one file are one source
            if cn in seen and seen[cn] != lk.served:
                ambiguous = True
            seen[cn] = lk.served
            if lk.live[0] != "ok" or lk.served != (lk.live[1], lk.live[2]):
                if lk not in stale:
                    stale.append(lk)
        if res[0] == "ok":
            check_tokens(res[1], tk["data"], tk.get("g"), w.env_g[tk.get("e", 0) if len(w.envs) > 1 else 0])
        if res[0] == "err" and res[1] == "CancelledError":
            if i not in cancelled_targets:
                # nobody cancelled this caller: another caller's cancellation reached it
                raise Violation("spurious_cancellation", task=i, cancelled=sorted(cancelled_targets))
            w.count("cancelled_ops")
            continue
        if had_err or ambiguous:
            w.count("conc_diff_skipped")
            if res[0] == "ok" and had_err:
                raise Violation("conc_error_swallowed", task=i, outcome=res)
            continue
        # full differential against the counterpart over the served versions
        final_live = True
        for lk in mine:
            if lk.served is not None:
                cur = w.live(lk.name, None, lk.kwargs)
                if cur[0] != "ok" or (cur[1], cur[2]) != lk.served:
                    final_live = False
        fix = [] if final_live else [lk for lk in mine if lk.served is not None]
        with w.with_clone(fix):
            kw = _kw(w, tk)
            tw = canon_call(w.cenvs[tk.get("e", 0) if len(w.envs) > 1 else 0].get_template, tk["name"], globals=tk.get("g"), **kw)
            if tw[0] == "ok":
                exp = canon_call(tw[1].render, **w.data_for(tk["data"], "ref"))
            else:
                exp = tw
        if res != exp:
            raise Violation("conc_output_mismatch", task=i, got=res, expected=exp,
                            lookups=[l.brief() for l in mine])
        w.count("conc_diff_ok")
    w.check_capacity()
    w.model_known = False
    # what the batch left in the cache must still be admissible for each key: probe every
    # name once (safety rule: live now, or a version that did exist at that location and
    # whose staleness the property permits), then flush and re-synchronise the model
    for name in w.cfg.get("names") or ():
        for kw in ([{}] + ([{w.nskey: t} for t in TENANTS] if w.nskey else [])):
            out = canon_call(w.env.get_template, name, **kw)
            for lk in w.take():
                if lk.served is None or lk.live[0] != "ok":
                    continue
                if lk.served == (lk.live[1], lk.live[2]):
                    continue
                ver, loc = lk.served
                known_version = (loc, ver) in w.content_of
                structural = (not w.auto_reload) or (not w.store.has_freshness(loc)) or (
                    lk.live[2] == loc and w.content_of.get((loc, ver), (None, None))[1] == lk.live[3])
                if known_version and lk.live[2] != loc and w.auto_reload and w.store.has_freshness(loc) \
                        and w.store.mtime(loc) == w.content_of[(loc, ver)][1] and not w.other_cwd(loc):
                    raise Violation("stale_served", sub="shadowed", lookup=lk.brief(), post_batch=True)
                if not (known_version and structural):
                    raise Violation("post_batch_wrong_content", lookup=lk.brief())
            w.check_capacity()
    w.count("post_batch_probes")
    do_flush(w)


def _thread_batch(w: World, op: dict, tasks: list, results: dict) -> None:
    """The batch run by caller THREADS (sync API; sim/threads.py decides every switch)."""
    import os

    from sim import threads as simthreads

    def mk_lr(i, tk):
        def fn():
            kw = _kw(w, tk)
            e = tk.get("e", 0) if len(w.envs) > 1 else 0
            t = w.envs[e].get_template(tk["name"], globals=tk.get("g"), **kw)
            return common.norm(t.render(**w.data_for(tk["data"], f"T{i}")))
        return fn

    def mk_w(i, tk):
        def fn():
            apply_mutation(w, tk["w"])
        return fn

    fns, names, idx = [], [], []
    for i, tk in enumerate(tasks):
        if tk["t"] == "lr":
            fns.append(mk_lr(i, tk)); names.append(f"T{i}"); idx.append(i)
        elif tk["t"] == "w":
            fns.append(mk_w(i, tk)); names.append(f"W{i}"); idx.append(i)

    def on_switch():
        try:
            w.check_capacity()
        except Violation as v:
            if w.pending is None:
                w.pending = v

    prefix = os.path.join(common.repo_root(), "liquid2") + os.sep
    sim = simthreads.ThreadSim(random.Random(f"{w.segs.seed}:tpar:{op['id']}"), (prefix,),
                               decisions=(w.tdecisions_in or {}).get(str(op["id"])), on_switch=on_switch,
                               atomic=lambda: w.store.rlog.observer > 0,   # the oracle's own reads are atomic
                               hot=("lru_cache.py", "mixins.py"))

    class _Dec:
        @property
        def decision_no(self):
            return sim.switches

    w.cur_loop = _Dec()
    try:
        res = sim.run(fns, names)
    finally:
        w.cur_loop = None
    w.tdecisions[str(op["id"])] = sim.decisions
    w.count("thread_batches")
    w.count("thread_preemptions", sim.preemptions)
    w.count("thread_lock_yields", sim.lock_yields)
    if sim.preemptions:
        w.count("thread_batches_interleaved")
    for k, i in enumerate(idx):
        if tasks[i]["t"] != "lr":
            continue
        r = res[k]
        if r[0] == "ok":
            results[i] = ("ok", r[1])
        else:
            exc = r[1]
            if isinstance(exc, (Inconclusive, Violation)):
                raise exc
            results[i] = canon_exc(exc)


def do_flush(w: World) -> None:
    """Re-synchronise the model: ``capacity`` loads of fresh names fill the cache."""
    items = []
    w.lookups = []
    for _ in range(w.capacity):
        w.filler_n += 1
        name = f"zz{w.filler_n}"
        if w.cfg["store"].startswith("ns"):
            loc = f"_/{name}"
        else:
            loc = w.store.locs(name)[0]
        ver = w.write(loc, name, {"k": "plain"}, "adv")
        out = canon_call(w.env.get_template, name)
        if out[0] != "ok":
            raise Violation("flush_failed", outcome=out)
        w.check_capacity()
        items.append(((None, name), Entry(ver, loc, w.store.mtime(loc), w.store.has_freshness(loc))))
    w.take()
    w.model.reset(items)
    w.models = [w.model]
    w.model_known = True
    w.count("flush")


def apply_mutation(w: World, m: dict) -> None:
    name = m["name"]
    locs = w.locs(name)
    loc = locs[m.get("li", 0) % len(locs)]
    if m["op"] == "write":
        struct = dict(m.get("struct") or {"k": "plain"})
        if m.get("cut") is not None:
            struct["cut"] = m["cut"]
            w.count("F4_torn_write")
        old = w.store.content(loc)
        w.write(loc, name, struct, m.get("mt", "adv"))
        if old is None:
            w.count("create")
        w.count({"adv": "F6a_modify", "same": "F6b_same_mtime", "back": "F6c_mtime_back"}[m.get("mt", "adv")])
    elif m["op"] == "delete":
        if w.store.content(loc) is not None:
            w.count("F5_delete")
        w.delete(loc)
    elif m["op"] == "linkify":
        # F14: the source file becomes a symbolic link to its content (deploys that swap links):
        # lstat() now reports the link's own inode, later writes go through the link
        if not hasattr(w.store, "fs") or loc.startswith("d0:") or loc not in w.store.fs.files:
            return
        w.store.fs.links[loc] = w.store.fs.files[loc][1]
        w.count("F14_symlinked_source")
    elif m["op"] == "dirify":
        # F12: the source file is replaced by a DIRECTORY of the same name: stat succeeds, open fails
        if not hasattr(w.store, "fs") or loc.startswith("d0:"):
            return
        w.store.fs.files.pop(loc, None)
        w.store.fs.dirs.add(loc)
        w.vers.pop(loc, None)
        w.store._note(loc, None)
        w.wlog.append((w.store.write_seq, loc, None, None))
        w.fault_w.append((w.store.write_seq, "delete"))
        w.count("F12_file_replaced_by_directory")
    elif m["op"] in ("blockdir", "unblockdir"):
        # F11: the directory holding the source is replaced by a regular file (a botched deploy)
        if not hasattr(w.store, "fs") or loc.startswith("d0:") or "/" not in name:
            return
        d = loc.rsplit("/", 1)[0]
        if m["op"] == "blockdir":
            w.store.fs.files[d] = ("not a directory", w.clock.now)
            w.count("F11_dir_replaced_by_file")
        else:
            w.store.fs.files.pop(d, None)
        w.store._note(loc, None)
        w.wlog.append((w.store.write_seq, loc, None, None))
        w.fault_w.append((w.store.write_seq, "delete"))


def execute(plan: dict) -> dict:
    common.setup_child()
    cfg = plan["cfg"]
    segs = common.Segments(plan["seed"], cfg["policy"], plan.get("decisions"))
    from sim import threads as simthreads
    simthreads.install_lock()
    w = World(cfg, segs)
    w.tdecisions_in = plan.get("tdecisions")
    status = "ok"
    violation = None
    step = -1
    try:
        for m in plan["init"]:
            apply_mutation(w, m)
        w.counters.clear()
        unavailable_next = False
        for step, op in enumerate(plan["ops"]):
            k = op["op"]
            w.count("op:" + k)
            if k in ("load", "render", "lr") and unavailable_next:
                w.store.set_unavailable(True)
                w.count("F3_outage")
            try:
                if k == "load":
                    t, twin = do_load(w, op)
                    if t is not None:
                        # a loaded template carries the environment globals as of load time
                        w.handles[op["h"]] = (t, twin, op.get("g"), dict(w.env_g[op.get("e", 0) if len(w.envs) > 1 else 0]))
                    else:
                        w.handles.pop(op["h"], None)
                elif k == "render":
                    h = w.handles.get(op["h"])
                    if h is not None:
                        do_render(w, {**op, "g_bound": h[2], "env_g_bound": h[3]}, h[0], h[1])
                elif k == "lr":
                    t, twin = do_load(w, op)
                    if t is not None:
                        do_render(w, {**op, "id": f"{op['id']}r", "g_bound": op.get("g"),
                                      "env_g_bound": dict(w.env_g[op.get("e", 0) if len(w.envs) > 1 else 0])}, t, twin)
                elif k in ("write", "delete", "blockdir", "unblockdir", "dirify", "linkify"):
                    apply_mutation(w, op)
                elif k == "unavail":
                    unavailable_next = True
                    continue
                elif k == "advance":
                    w.clock.advance(op["dt"])
                    w.count("F7_clock")
                elif k == "chdir":
                    # F15: the process changes its working directory (daemonising, a task runner):
                    # a relative search path now names the other tree
                    from sim.storage import CWDS
                    fs = getattr(w.store, "fs", None)
                    if fs is not None and fs.cwd:
                        fs.cwd = CWDS[1] if fs.cwd == CWDS[0] else CWDS[0]
                        w.count("F15_chdir")
                elif k == "envg":
                    # the application changes an environment global between loads
                    e = op.get("e", 0) if len(w.envs) > 1 else 0
                    if op["v"] is None:      # the global is removed again (globals may become empty)
                        w.envs[e].globals.pop("gv", None)
                        w.cenvs[e].globals.pop("gv", None)
                        w.env_g[e] = {}
                    else:
                        w.envs[e].globals["gv"] = op["v"]
                        w.cenvs[e].globals["gv"] = op["v"]
                        w.env_g[e] = {**w.env_g[e], "gv": op["v"]}
                    w.count("env_globals_changed")
                elif k == "par":
                    do_par(w, op)
                elif k == "flush":
                    do_flush(w)
                else:
                    raise ValueError(k)
            finally:
                if k in ("load", "render", "lr"):
                    w.store.set_unavailable(False)
                    unavailable_next = False
    except Violation as v:
        status = "violation"
        violation = {"property": PROP, "kind": v.kind, "step": step, **_jsonable(v.detail)}
        violation["sig"] = signature(violation)
    except Inconclusive as exc:
        status = "inconclusive"
        w.count("inconclusive:" + str(exc))
    c = w.counters
    c["decisions"] = segs.total_decisions
    c["overlap_decisions"] = segs.overlap
    c["parks"] = segs.parks
    c["exec_jobs"] = segs.jobs
    c["eio_fired"] = w.store.rlog.eio_fired + (w.store.fs.eio_fired if hasattr(w.store, "fs") else 0)
    c["second_namespace"] = 1 if len(w.namespaces_seen - {None}) > 1 else 0
    nontrivial = c.get("hit", 0) >= 1 and (
        c.get("eviction", 0) + c.get("reload", 0) + c.get("second_namespace", 0)
        + sum(v for k, v in c.items() if k.startswith("stale_served:")) >= 1)
    res = {
        "status": status,
        "trace": digest(w.trace),
        "counters": c,
        "sim_seconds": w.clock.advanced,
        "digest": digest([plan["cfg"], plan["init"], plan["ops"], segs.decisions, w.tdecisions]),
        "nontrivial": bool(nontrivial),
        "states": sorted(f"{cfg['capacity']}|{s}" for s in w.states)[:200],
        "transitions": sorted(f"{cfg['capacity']}|{s}" for s in w.transitions)[:400],
        "decisions": segs.decisions,
        "tdecisions": w.tdecisions,
    }
    if violation is not None:
        res["violation"] = violation
    return res


def _jsonable(d):
    import json
    return json.loads(json.dumps(d, default=str))


def signature(v: dict) -> str:
    s = f"C14:{v['kind']}"
    if v.get("sub"):
        s += ":" + v["sub"]
    return s


# -------------------------------------------------------------- generator
def gen_plan(seed: int, tier: str) -> dict:
    rng = random.Random(f"c14:{seed}")
    store = rng.choice(STORE_KINDS)
    is_ns = store.startswith("ns")
    nskey = "tenant" if (is_ns or rng.random() < 0.4) else ""
    maxcap = 3 if tier == "quick" else 5
    cfg = {
        "store": store,
        "capacity": rng.choice([1, 2, 2, 3] if maxcap == 3 else [1, 2, 3, 4, 5]),
        "auto_reload": rng.random() < 0.65,
        "nskey": nskey,
        "env_globals": rng.choice([{}, {}, {"gv": "E"}]),
        "parked": rng.random() < 0.5,
        "matter": rng.random() < 0.3,
        "thread_safe": rng.random() < 0.3,
        "encoding": rng.choice(["utf-8", "utf-8", "latin-1", "utf-16"]),
        "policy": rng.choice(simsched.POLICIES),
    }
    names = list(NAME_POOL[: rng.choice([2, 3, 3, 4])])
    rngn = random.Random(f"c14n:{seed}")   # (own random stream: base plans keep their shape)
    if rngn.random() < 0.15 and not (store.startswith("fs") and cfg["encoding"] == "latin-1"):
        # two names that differ only in Unicode normalisation form: distinct keys, distinct files
        names += ["caf\u00e9", "cafe\u0301"]
    cfg["names"] = names
    if store == "fsx":
        names = [n for n in names]
    if store.startswith("fs") and rngn.random() < 0.12:
        store = cfg["store"] = "fsrel"   # a relative search path and a process that changes directory
    n_locs = {"dict": 1, "dictp": 1, "dd": 2, "fs": 1, "fs2": 2, "fsx": 1, "fs+d": 2, "fsrel": 1}.get(store, 3)
    allow_shadow = rng.random() < 0.05
    uid = [0]

    def nid():
        uid[0] += 1
        return uid[0]

    def struct():
        k = rng.choice(["plain", "plain", "plain", "inc", "incw", "ren", "renw", "ext", "base"])
        t = rng.choice(names)
        if nskey and rng.random() < 0.2:
            k = rng.choice(["shadow_assign", "shadow_for", "shadow_with", "shadow_capture", "ren_ns", "ren_ns", "inc_ns"])
            return {"k": k, "t": t, "ns": rng.choice(TENANTS)}
        return {"k": k, "t": t}

    init = []
    placed: dict[str, set[int]] = {n: set() for n in names}
    for n in names:
        if is_ns:
            for li in rng.sample(range(4), rng.choice([1, 2, 3, 4])):
                init.append({"op": "write", "name": n, "li": li, "struct": struct(), "mt": "adv"})
                placed[n].add(li)
        else:
            li = n_locs - 1 if rng.random() < 0.7 else rng.randrange(n_locs)
            init.append({"op": "write", "name": n, "li": li, "struct": struct(), "mt": "adv"})
            placed[n].add(li)

    users = ["alice", "bob", "carol"]

    def data():
        d = {"user": rng.choice(users)}
        if nskey and rng.random() < 0.7:
            d["tenant"] = rng.choice(NS_VALUES)
        return d

    def lr_fields():
        f = {"name": rng.choice(names), "mode": rng.choice("sa"),
             "data": data()}
        if rng.random() < 0.08:
            f["name"] = "nope"
        elif store.startswith("fs") and rng.random() < 0.15:
            base = f["name"]
            f["name"] = rng.choice(["./" + base, base.replace("/", "//") if "/" in base else "./" + base,
                                    base + ".liquid" if store == "fsx" else "./" + base])
        if nskey and rng.random() < 0.7:
            f["ns_kw"] = rng.choice(NS_VALUES)
        r = rng.random()
        if r < 0.45:
            f["g"] = {"gv": rng.choice(["G1", "G2", "G3"])}
            if rng.random() < 0.25:   # equal-but-different values: 1 == True == 1.0, 0 == False
                f["g"] = {"gv": rng.choice([1, True, 1.0, 0, False, 0.0])}
        elif r < 0.55:
            f["g"] = {}
        if nskey and f.get("g") is not None and rng.random() < 0.3:
            f["g"] = {**f["g"], "tenant": rng.choice(TENANTS)}
        if rng.random() < 0.1:
            f["direct"] = True
        return f


    def mutation():
        n = rng.choice(names)
        r = rng.random()
        if is_ns:
            li = rng.randrange(4)
        elif allow_shadow or n_locs == 1:
            li = rng.randrange(n_locs)
        else:
            # never create a source in an earlier location than an existing one
            li = min(placed[n]) if placed[n] and rng.random() < 0.8 else n_locs - 1
            if placed[n] and li < min(placed[n]):
                li = min(placed[n])
        if r < 0.03 and store.startswith("fs"):
            placed[n].discard(li)
            return {"op": "dirify", "name": n, "li": li}
        if r < 0.07 and "/" in n and store.startswith("fs"):
            return {"op": rng.choice(["blockdir", "blockdir", "unblockdir"]), "name": n, "li": li}
        if r < 0.22:
            placed[n].discard(li)
            return {"op": "delete", "name": n, "li": li}
        m = {"op": "write", "name": n, "li": li, "struct": struct(),
             "mt": rng.choices(["adv", "same", "back"], [6, 2, 2])[0]}
        if rng.random() < 0.12:
            m["cut"] = round(rng.random(), 3)
        placed[n].add(li)
        return m

    short = rng.random() < 0.5
    n_ops = rng.randint(2, 8) if short else rng.randint(8, 24 if tier == "quick" else 60)
    ops = []
    nh = 0
    while len(ops) < n_ops:
        r = rng.random()
        if r < 0.42:
            ops.append({"op": "lr", "id": nid(), **lr_fields()})
        elif r < 0.50:
            ops.append({"op": "load", "id": nid(), "h": nh % 3, **lr_fields()})
            nh += 1
        elif r < 0.58 and nh:
            ops.append({"op": "render", "id": nid(), "h": rng.randrange(min(nh, 3)),
                        "mode": rng.choice("sa"), "data": data()})
        elif r < 0.80:
            m = mutation()
            if m["op"] == "write" and m["mt"] == "adv" or rng.random() < 0.5:
                ops.append({"op": "advance", "dt": rng.choice([0.001, 1, 1, 60, 86400])})
            ops.append(m)
            # bias: touch the modified name soon
            if rng.random() < 0.6:
                f = lr_fields()
                f["name"] = m["name"]
                ops.append({"op": "lr", "id": nid(), **f})
        elif r < 0.86:
            ops.append({"op": "unavail"})
            ops.append({"op": "lr", "id": nid(), **lr_fields()})
        elif r < 0.875:
            ops.append({"op": "advance", "dt": rng.choice([-3600, 0, 5, 86400 * 30])})
        elif r < 0.89:
            ops.append({"op": "envg", "v": rng.choice(["E1", "E2", "", None, None])})
            ops.append({"op": "lr", "id": nid(), **lr_fields()})
        else:
            tasks = []
            big = rng.random() < 0.06     # a burst of 9-12 overlapping loads (pools, semaphores, limits)
            for _ in range(rng.randint(9, 12) if big else rng.randint(2, 4)):
                f = lr_fields()
                f.pop("mode")
                f.pop("direct", None)
                tasks.append({"t": "lr", **f})
            if rng.random() < 0.5:
                same = rng.choice(names)
                for tk in tasks[: rng.randint(1, len(tasks))]:
                    tk["name"] = same
            for _ in range(rng.choice([0, 1, 1, 2])):
                fr = rng.random()
                if fr < 0.6:
                    m = mutation()
                    tasks.append({"t": "w", "w": m})
                elif fr < 0.8:
                    tasks.append({"t": "cancel", "target": rng.randrange(len(tasks))})
                else:
                    tasks.append({"t": "down"})
            ops.append({"op": "par", "id": nid(), "tasks": tasks})
            if big:   # and once more, on another event loop
                ops.append({"op": "par", "id": nid(), "tasks": [t for t in tasks if t["t"] == "lr"]})
    # bounded recovery: no faults, everything rewritten, every name loaded once
    ops.append({"op": "advance", "dt": 7})
    for n in names:
        if "/" in n and store.startswith("fs"):
            for li2 in range(n_locs):
                ops.append({"op": "unblockdir", "name": n, "li": li2})
    for n in names:
        li = min(placed[n]) if placed[n] else (0 if is_ns else n_locs - 1)
        if is_ns:
            for li2 in sorted(placed[n]) or [li]:
                ops.append({"op": "write", "name": n, "li": li2, "struct": {"k": "plain"}, "mt": "adv"})
        else:
            ops.append({"op": "write", "name": n, "li": li, "struct": {"k": "plain"}, "mt": "adv"})
    for n in names:
        f = lr_fields()
        f["name"] = n
        f["mode"] = "s"
        ops.append({"op": "lr", "id": nid(), "recovery": True, **f})
    rng2 = random.Random(f"c14e:{seed}")
    if store.startswith("fs") and rng2.random() < 0.3:
        # symbolic links (own random stream: base plans keep their shape)
        for m in list(init):
            if m["op"] == "write" and rng2.random() < 0.6:
                init.append({"op": "linkify", "name": m["name"], "li": m["li"]})
        if ops and rng2.random() < 0.5:
            ops.insert(rng2.randrange(len(ops)), {"op": "linkify", "name": rng2.choice(names), "li": n_locs - 1})
    if store == "fsrel":
        for _ in range(rng2.randint(1, 4)):
            at = rng2.randrange(len(ops) + 1)
            f = lr_fields()
            ops[at:at] = [{"op": "chdir"}, {"op": "lr", "id": nid(), **f}]
    for op in ops:
        if op["op"] == "par" and not op.get("threads"):
            for tk in op["tasks"]:
                if tk["t"] == "lr" and rng2.random() < 0.15:
                    tk["sync"] = True
    if not is_ns and n_locs >= 2 and rng2.random() < 0.3:
        # the same name stored in two search paths / loaders from the start, written at the same
        # instant (equal mtimes): the lower-priority copy only shows when the other one goes
        for m in list(init):
            if m["op"] == "write" and rng2.random() < 0.5:
                other = [li for li in range(n_locs) if li != m["li"]]
                init.append({**m, "li": rng2.choice(other), "struct": dict(m["struct"])})
                placed[m["name"]].add(init[-1]["li"])
    if is_ns and rng2.random() < 0.3:
        cfg["thread_safe"] = True
    if is_ns and cfg["thread_safe"]:
        # caller threads on a cache built thread-safe (the mixin's thread_safe=True)
        for op in ops:
            if op["op"] == "par" and rng2.random() < 0.6:
                op["threads"] = True
                op["tasks"] = [t for t in op["tasks"] if t["t"] in ("lr", "w")]
        if not any(op.get("threads") for op in ops):
            tasks = []
            for _ in range(rng2.randint(3, 5)):
                f = lr_fields()
                f.pop("mode")
                f.pop("direct", None)
                tasks.append({"t": "lr", **f})
            for _ in range(rng2.choice([0, 1, 1, 2])):
                tasks.append({"t": "w", "w": mutation()})
            ops.insert(rng2.randrange(len(ops) + 1), {"op": "par", "id": nid(), "tasks": tasks, "threads": True})
    for op in ops:
        # a Windows-style spelling: on this platform another (non-existent) name
        if op["op"] in ("lr", "load") and "/" in op.get("name", "") and rng2.random() < 0.1:
            op["name"] = op["name"].replace("/", "\\")
        elif op["op"] == "par":
            for tk in op["tasks"]:
                if tk["t"] == "lr" and "/" in tk.get("name", "") and rng2.random() < 0.06:
                    tk["name"] = tk["name"].replace("/", "\\")
    # application code passing its own render context to get_template() / load()
    for op in ops:
        if op["op"] in ("lr", "load") and rng2.random() < 0.08:
            op["ctx"] = ({"tenant": rng2.choice(TENANTS)} if (nskey and rng2.random() < 0.6) else {})
    # a second Environment sharing the caching loader
    if rng2.random() < 0.3:
        cfg["env2"] = rng2.choice([{"gv": "F"}, {"gv": "F"}, {}])
        for op in ops:
            if op["op"] in ("lr", "load", "envg") and rng2.random() < 0.4:
                op["e"] = 1
            elif op["op"] == "par":
                for tk in op["tasks"]:
                    if tk["t"] == "lr" and rng2.random() < 0.4:
                        tk["e"] = 1
    return {"property": PROP, "seed": seed, "cfg": cfg, "init": init, "ops": ops}


# ----------------------------------------------------------------- engine
class Engine:
    id = PROP
    module = "checks.c14"

    def run_seed(self, job: dict) -> dict:
        plan = gen_plan(job["seed"], job["tier"])
        res = execute(plan)
        if res["status"] == "violation":
            plan["decisions"] = res.pop("decisions")
            plan["tdecisions"] = res.pop("tdecisions", {})
            res["plan"] = plan
        else:
            res.pop("decisions", None)
            res.pop("tdecisions", None)
        if job.get("want_sample"):
            res["sample"] = {"seed": job["seed"], "cfg": plan["cfg"],
                             "init": plan["init"][:4], "ops": plan["ops"][:12]}
        return res

    def replay(self, plan: dict) -> dict:
        return execute(plan)

    def minimise(self, v: dict, in_child) -> dict:
        from sim.minimise import minimise_ops
        return minimise_ops(self, v, in_child)


ENGINE = Engine()
