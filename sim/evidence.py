"""Write /verif/evidence/<id>.json from what a batch actually covered."""

from __future__ import annotations

import json
import os

HERE = os.path.dirname(os.path.dirname(os.path.abspath(__file__)))

RULES = {
    "C14": ("One evaluation = one seeded history (config x initial storage x ops incl. "
            "concurrent batches and faults) executed against a real caching loader, its real "
            "uncached counterpart and the LRU model. Distinct = distinct digest of (config, "
            "ops, scheduler decisions). Non-trivial = the history had >=1 cache hit and >=1 of "
            "{eviction, reload after modification, permitted stale hit, second namespace}."),
    "C03": ("One evaluation = one seeded world (env options x loader kind x programs x data x "
            "fault marks) in which k async operations run concurrently under a seeded scheduler "
            "and each is compared with its sync twin. Distinct = distinct digest of (plan, "
            "scheduler decisions). Non-trivial = >=1 await actually parked and the compared "
            "operation produced output or a render-time error (not only a parse error)."),
    "C09": ("One evaluation = one seeded history over shared Environment/Template/loader "
            "objects, every step compared with the same call on freshly built objects. Distinct "
            "= distinct digest of (plan, decisions). Non-trivial = >=2 steps on one shared object "
            "with a stateful construct, a fault, a clock step or a configure in between."),
}

REAL = [
    "liquid2 (whole package from the /repo working tree: lexer, parser, nodes, expressions, "
    "RenderContext, Template, Environment, all built-in loaders, CachingLoaderMixin, LRUCache, "
    "filters incl. Babel/dateutil)",
    "asyncio.Task / Future / gather (CPython)",
]
STUB = [
    "event loop + executor (sim.loop.SimLoop: seeded choice of which parked await / executor job completes)",
    "thread scheduler (sim.threads.ThreadSim: real caller threads, one runs at a time, seeded pre-emption at line events "
    "inside the library; threading.Lock of liquid2.utils.lru_cache replaced by SimLock)",
    "wall clock (sim.clock shim behind the modules' `datetime` name, time.time)",
    "file system (sim.simfs.SimFS behind pathlib.Path.stat/open, os.stat/lstat/fstat, open(), os.getcwd for /simfs and "
    "relative simrel* paths; regular files, directories, symbolic links, mtimes, stored encoding)",
    "template storage (LoggingDict / NsStore / SimFS contents) and thin loader subclasses that add one await point",
    "render data (sim.drops.SimDrop/SimSeqDrop test doubles), translation catalog double",
]

FAULT_KEYS = ("F1_", "F2_", "F3_", "F4_", "F5_", "F6", "F7_", "F8_", "F9_", "F10_", "F11_", "F12_", "F13_",
              "F14_", "F15_", "eio_fired", "thread_preemptions", "thread_lock_yields")


def write(pid: str, level: str, tier: str, master: int, total: dict, known_hits: dict,
          n_violations: int, wall_s: float) -> None:
    c = dict(total["counters"])
    faults = {k: v for k, v in sorted(c.items()) if k.startswith(FAULT_KEYS)}
    faults["F1_interleaving_decisions"] = c.get("decisions", 0)
    probes = {k: v for k, v in sorted(c.items())
              if not k.startswith(FAULT_KEYS) and not k.startswith(("op:", "err:", "prog:", "cfg:"))}
    zero = sorted(k for k, v in probes.items() if v == 0 and not k.startswith(("determinism_", "discarded_")))
    runs = total["runs"]
    wall = max(total["wall_s"], 1e-9)
    cov = {
        "evaluations": runs,
        "distinct_nontrivial": len(total["nontrivial"]),
        "distinct_runs": len(total["digests"]),
        "rule": RULES[pid],
        "samples": total["samples"][:3] or [{"note": "no sample captured"}],
        "runs_per_hour": round(runs / wall * 3600),
        "workers": total.get("workers"),
        "requested_runs": total.get("requested_runs"),
        "status": dict(total["status"]),
        "simulated_seconds": round(total["sim_seconds"], 3),
        "faults_fired": faults,
        "probes": probes,
        "ops": {k[3:]: v for k, v in sorted(c.items()) if k.startswith("op:")},
        "errors_seen": {k[4:]: v for k, v in sorted(c.items()) if k.startswith("err:")},
        "program_kinds": {k[5:]: v for k, v in sorted(c.items()) if k.startswith("prog:")},
        "configurations": {k[4:]: v for k, v in sorted(c.items()) if k.startswith("cfg:")},
        "distinct_interleavings_measure": "distinct digests of (plan, per-segment decision lists)",
        "first_run_seeds": total.get("seeds", [])[:4],
        "known_findings": known_hits,
        "real_components": REAL,
        "stub_components": STUB,
        "harness_errors": total["status"].get("harness_error", 0),
        "capped": total["status"].get("capped", 0),
        "inconclusive": total["status"].get("inconclusive", 0),
    }
    if total.get("library_reach"):
        cov["library_reach"] = total["library_reach"]
    if total.get("states"):
        cov["states"] = len(total["states"])
        cov["transitions"] = len(total["transitions"])
    ev = {
        "property_id": pid,
        "tier": tier,
        "seed": master,
        "level": level,
        "coverage": cov,
        "assumptions": [
            "sampling, not enumeration: a clean batch is evidence, not proof",
            "code between two awaits is atomic (asyncio semantics); caller threads are pre-empted only at line "
            "events inside liquid2 source files (not inside C code or third-party modules)",
            "SimFS models regular files, directories, symbolic links to files and mtimes only",
        ] + ([f"probes at zero in this run: {', '.join(zero)}"] if zero else []),
        "wall_s": round(wall_s, 2),
        "violations": n_violations,
    }
    os.makedirs(os.path.join(HERE, "evidence"), exist_ok=True)
    with open(os.path.join(HERE, "evidence", f"{pid}.json"), "w") as f:
        json.dump(ev, f, indent=1, sort_keys=True, default=str)
